use crate::*;
use subtle::Choice;

/// A signature proof of knowledge
#[derive(PartialEq, Eq, serde::Serialize, serde::Deserialize)]
pub enum ProofOfKnowledge<C: BlsSignatureImpl> {
    /// The basic signature scheme
    Basic {
        /// The commitment value
        #[serde(serialize_with = "traits::signature::serialize::<C, _>")]
        #[serde(deserialize_with = "traits::signature::deserialize::<C, _>")]
        u: <C as Pairing>::Signature,
        /// The proof
        #[serde(serialize_with = "traits::signature::serialize::<C, _>")]
        #[serde(deserialize_with = "traits::signature::deserialize::<C, _>")]
        v: <C as Pairing>::Signature,
    },
    /// The message augmentation signature scheme
    MessageAugmentation {
        /// The commitment value
        #[serde(serialize_with = "traits::signature::serialize::<C, _>")]
        #[serde(deserialize_with = "traits::signature::deserialize::<C, _>")]
        u: <C as Pairing>::Signature,
        /// The proof
        #[serde(serialize_with = "traits::signature::serialize::<C, _>")]
        #[serde(deserialize_with = "traits::signature::deserialize::<C, _>")]
        v: <C as Pairing>::Signature,
    },
    /// The proof of possession signature scheme
    ProofOfPossession {
        /// The commitment value
        #[serde(serialize_with = "traits::signature::serialize::<C, _>")]
        #[serde(deserialize_with = "traits::signature::deserialize::<C, _>")]
        u: <C as Pairing>::Signature,
        /// The proof
        #[serde(serialize_with = "traits::signature::serialize::<C, _>")]
        #[serde(deserialize_with = "traits::signature::deserialize::<C, _>")]
        v: <C as Pairing>::Signature,
    },
}

impl<C: BlsSignatureImpl> Default for ProofOfKnowledge<C> {
    fn default() -> Self {
        Self::ProofOfPossession {
            u: <C as Pairing>::Signature::default(),
            v: <C as Pairing>::Signature::default(),
        }
    }
}

impl<C: BlsSignatureImpl> core::fmt::Display for ProofOfKnowledge<C> {
    fn fmt(&self, f: &mut core::fmt::Formatter<'_>) -> core::fmt::Result {
        match self {
            Self::Basic { u, v } => write!(f, "Basic{{ u: {}, v: {} }}", u, v),
            Self::MessageAugmentation { u, v } => {
                write!(f, "MessageAugmentation{{ u: {}, v: {} }}", u, v)
            }
            Self::ProofOfPossession { u, v } => {
                write!(f, "ProofOfPossession{{ u: {}, v: {} }}", u, v)
            }
        }
    }
}

impl<C: BlsSignatureImpl> core::fmt::Debug for ProofOfKnowledge<C> {
    fn fmt(&self, f: &mut core::fmt::Formatter<'_>) -> core::fmt::Result {
        match self {
            Self::Basic { u, v } => write!(f, "Basic{{ u: {:?}, v: {:?} }}", u, v),
            Self::MessageAugmentation { u, v } => {
                write!(f, "MessageAugmentation{{ u: {:?}, v: {:?} }}", u, v)
            }
            Self::ProofOfPossession { u, v } => {
                write!(f, "ProofOfPossession{{ u: {:?}, v: {:?} }}", u, v)
            }
        }
    }
}

impl<C: BlsSignatureImpl> Copy for ProofOfKnowledge<C> {}

impl<C: BlsSignatureImpl> Clone for ProofOfKnowledge<C> {
    fn clone(&self) -> Self {
        *self
    }
}

impl<C: BlsSignatureImpl> subtle::ConditionallySelectable for ProofOfKnowledge<C> {
    fn conditional_select(a: &Self, b: &Self, choice: Choice) -> Self {
        match (a, b) {
            (Self::Basic { u: u1, v: v1 }, Self::Basic { u: u2, v: v2 }) => Self::Basic {
                u: <C as Pairing>::Signature::conditional_select(u1, u2, choice),
                v: <C as Pairing>::Signature::conditional_select(v1, v2, choice),
            },
            (
                Self::MessageAugmentation { u: u1, v: v1 },
                Self::MessageAugmentation { u: u2, v: v2 },
            ) => Self::MessageAugmentation {
                u: <C as Pairing>::Signature::conditional_select(u1, u2, choice),
                v: <C as Pairing>::Signature::conditional_select(v1, v2, choice),
            },
            (
                Self::ProofOfPossession { u: u1, v: v1 },
                Self::ProofOfPossession { u: u2, v: v2 },
            ) => Self::ProofOfPossession {
                u: <C as Pairing>::Signature::conditional_select(u1, u2, choice),
                v: <C as Pairing>::Signature::conditional_select(v1, v2, choice),
            },
            _ => panic!("Signature::conditional_select: mismatched variants"),
        }
    }
}

impl<C: BlsSignatureImpl> From<&ProofOfKnowledge<C>> for Vec<u8> {
    fn from(value: &ProofOfKnowledge<C>) -> Self {
        serde_bare::to_vec(value).expect("Failed to serialize ProofOfKnowledge")
    }
}

impl<C: BlsSignatureImpl> TryFrom<&[u8]> for ProofOfKnowledge<C> {
    type Error = BlsError;

    fn try_from(value: &[u8]) -> BlsResult<Self> {
        let output = serde_bare::from_slice(value)?;
        Ok(output)
    }
}

impl_from_derivatives_generic!(ProofOfKnowledge);

impl<C: BlsSignatureImpl> ProofOfKnowledge<C> {
    /// Verify the proof of knowledge
    pub fn verify<B: AsRef<[u8]>>(
        &self,
        pk: PublicKey<C>,
        msg: B,
        y: ProofCommitmentChallenge<C>,
    ) -> BlsResult<()> {
        match self {
            ProofOfKnowledge::Basic { u, v } => <C as BlsSignatureProof>::verify(
                *u,
                *v,
                pk.0,
                y.0,
                msg,
                <C as BlsSignatureBasic>::DST,
            ),
            ProofOfKnowledge::MessageAugmentation { u, v } => <C as BlsSignatureProof>::verify(
                *u,
                *v,
                pk.0,
                y.0,
                msg,
                <C as BlsSignatureMessageAugmentation>::DST,
            ),
            ProofOfKnowledge::ProofOfPossession { u, v } => <C as BlsSignatureProof>::verify(
                *u,
                *v,
                pk.0,
                y.0,
                msg,
                <C as BlsSignaturePop>::SIG_DST,
            ),
        }
    }
}

/// A signature proof of knowledge based on a timestamp
#[derive(PartialEq, Eq, serde::Serialize, serde::Deserialize)]
pub struct ProofOfKnowledgeTimestamp<C: BlsSignatureImpl> {
    /// The inner proof of knowledge
    #[serde(bound(
        serialize = "ProofOfKnowledge<C>: serde::Serialize",
        deserialize = "ProofOfKnowledge<C>: serde::Deserialize<'de>"
    ))]
    pub proof: ProofOfKnowledge<C>,
    /// The timestamp associated with the proof
    pub timestamp: u64,
}

impl<C: BlsSignatureImpl> Default for ProofOfKnowledgeTimestamp<C> {
    fn default() -> Self {
        Self {
            proof: ProofOfKnowledge::ProofOfPossession {
                u: <C as Pairing>::Signature::default(),
                v: <C as Pairing>::Signature::default(),
            },
            timestamp: 0,
        }
    }
}

impl<C: BlsSignatureImpl> core::fmt::Display for ProofOfKnowledgeTimestamp<C> {
    fn fmt(&self, f: &mut core::fmt::Formatter<'_>) -> core::fmt::Result {
        write!(
            f,
            "{{ proof: {}, timestamp: {} }}",
            self.proof, self.timestamp
        )
    }
}

impl<C: BlsSignatureImpl> core::fmt::Debug for ProofOfKnowledgeTimestamp<C> {
    fn fmt(&self, f: &mut core::fmt::Formatter<'_>) -> core::fmt::Result {
        write!(
            f,
            "{{ proof: {:?}, timestamp: {:?} }}",
            self.proof, self.timestamp
        )
    }
}

impl<C: BlsSignatureImpl> Copy for ProofOfKnowledgeTimestamp<C> {}

impl<C: BlsSignatureImpl> Clone for ProofOfKnowledgeTimestamp<C> {
    fn clone(&self) -> Self {
        *self
    }
}

impl<C: BlsSignatureImpl> subtle::ConditionallySelectable for ProofOfKnowledgeTimestamp<C> {
    fn conditional_select(a: &Self, b: &Self, choice: Choice) -> Self {
        Self {
            proof: ProofOfKnowledge::conditional_select(&a.proof, &b.proof, choice),
            timestamp: u64::conditional_select(&a.timestamp, &b.timestamp, choice),
        }
    }
}

impl<C: BlsSignatureImpl> From<&ProofOfKnowledgeTimestamp<C>> for Vec<u8> {
    fn from(value: &ProofOfKnowledgeTimestamp<C>) -> Self {
        serde_bare::to_vec(value).expect("Failed to serialize ProofOfKnowledgeTimestamp")
    }
}

impl<C: BlsSignatureImpl> TryFrom<&[u8]> for ProofOfKnowledgeTimestamp<C> {
    type Error = BlsError;

    fn try_from(value: &[u8]) -> BlsResult<Self> {
        let output = serde_bare::from_slice(value)?;
        Ok(output)
    }
}

impl_from_derivatives_generic!(ProofOfKnowledgeTimestamp);

impl<C: BlsSignatureImpl> ProofOfKnowledgeTimestamp<C> {
    /// Create a new signature proof of knowledge using a timestamp
    pub fn generate<B: AsRef<[u8]>>(msg: B, signature: Signature<C>) -> BlsResult<Self> {
        match signature {
            Signature::Basic(s) => {
                let (u, v, timestamp) = <C as BlsSignatureProof>::generate_timestamp_proof(
                    msg,
                    <C as BlsSignatureBasic>::DST,
                    s,
                )?;
                Ok(Self {
                    proof: ProofOfKnowledge::Basic { u, v },
                    timestamp,
                })
            }
            Signature::MessageAugmentation(s) => {
                let (u, v, timestamp) = <C as BlsSignatureProof>::generate_timestamp_proof(
                    msg,
                    <C as BlsSignatureMessageAugmentation>::DST,
                    s,
                )?;
                Ok(Self {
                    proof: ProofOfKnowledge::MessageAugmentation { u, v },
                    timestamp,
                })
            }
            Signature::ProofOfPossession(s) => {
                let (u, v, timestamp) = <C as BlsSignatureProof>::generate_timestamp_proof(
                    msg,
                    <C as BlsSignaturePop>::SIG_DST,
                    s,
                )?;
                Ok(Self {
                    proof: ProofOfKnowledge::ProofOfPossession { u, v },
                    timestamp,
                })
            }
        }
    }

    /// Verify this proof of knowledge
    pub fn verify<B: AsRef<[u8]>>(
        &self,
        pk: PublicKey<C>,
        msg: B,
        timeout_ms: Option<u64>,
    ) -> BlsResult<()> {
        match self.proof {
            ProofOfKnowledge::Basic { u, v } => <C as BlsSignatureProof>::verify_timestamp_proof(
                u,
                v,
                pk.0,
                self.timestamp,
                timeout_ms,
                msg,
                <C as BlsSignatureBasic>::DST,
            ),
            ProofOfKnowledge::MessageAugmentation { u, v } => {
                <C as BlsSignatureProof>::verify_timestamp_proof(
                    u,
                    v,
                    pk.0,
                    self.timestamp,
                    timeout_ms,
                    msg,
                    <C as BlsSignatureMessageAugmentation>::DST,
                )
            }
            ProofOfKnowledge::ProofOfPossession { u, v } => {
                <C as BlsSignatureProof>::verify_timestamp_proof(
                    u,
                    v,
                    pk.0,
                    self.timestamp,
                    timeout_ms,
                    msg,
                    <C as BlsSignaturePop>::SIG_DST,
                )
            }
        }
    }
}
