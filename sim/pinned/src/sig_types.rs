use crate::BlsError;

/// The BLS signature algorithm schemes
#[derive(Copy, Clone, Debug, Eq, PartialEq, Ord, PartialOrd)]
#[repr(u8)]
pub enum SignatureSchemes {
    /// The basic signature algorithm scheme
    Basic = 0,
    /// The message augmentation signature algorithm scheme
    MessageAugmentation = 1,
    /// The proof of possession signature algorithm scheme
    ProofOfPossession = 2,
}

impl Default for SignatureSchemes {
    fn default() -> Self {
        Self::ProofOfPossession
    }
}

impl From<u8> for SignatureSchemes {
    fn from(value: u8) -> Self {
        match value {
            0 => Self::Basic,
            1 => Self::MessageAugmentation,
            _ => Self::ProofOfPossession,
        }
    }
}

impl From<&str> for SignatureSchemes {
    fn from(value: &str) -> Self {
        match value {
            "Basic" => Self::Basic,
            "MessageAugmentation" => Self::MessageAugmentation,
            _ => Self::ProofOfPossession,
        }
    }
}

impl core::fmt::Display for SignatureSchemes {
    fn fmt(&self, f: &mut core::fmt::Formatter<'_>) -> core::fmt::Result {
        match self {
            Self::Basic => write!(f, "Basic"),
            Self::MessageAugmentation => write!(f, "MessageAugmentation"),
            Self::ProofOfPossession => write!(f, "ProofOfPossession"),
        }
    }
}

impl core::str::FromStr for SignatureSchemes {
    type Err = BlsError;

    fn from_str(s: &str) -> Result<Self, Self::Err> {
        match s {
            "Basic" => Ok(Self::Basic),
            "MessageAugmentation" => Ok(Self::MessageAugmentation),
            _ => Ok(Self::ProofOfPossession),
        }
    }
}

impl serde::Serialize for SignatureSchemes {
    fn serialize<S>(&self, s: S) -> Result<S::Ok, S::Error>
    where
        S: serde::Serializer,
    {
        if s.is_human_readable() {
            self.to_string().serialize(s)
        } else {
            (*self as u8).serialize(s)
        }
    }
}

impl<'de> serde::Deserialize<'de> for SignatureSchemes {
    fn deserialize<D>(d: D) -> Result<Self, D::Error>
    where
        D: serde::Deserializer<'de>,
    {
        if d.is_human_readable() {
            let s = String::deserialize(d)?;
            Ok(Self::from(s.as_str()))
        } else {
            let u = u8::deserialize(d)?;
            Ok(Self::from(u))
        }
    }
}
