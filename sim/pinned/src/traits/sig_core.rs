use crate::impls::inner_types::*;
use crate::*;
use vsss_rs::{combine_shares_group, Share};

/// The core methods used by BLS signatures
pub trait BlsSignatureCore:
    Pairing
    + HashToPoint<Output = Self::Signature>
    + BlsSerde
    + BlsSignatureProof
    + BlsSignCrypt
    + BlsTimeCrypt
    + BlsElGamal
{
    /// Get the public key corresponding to the secret key
    fn public_key(sk: &<Self::PublicKey as Group>::Scalar) -> Self::PublicKey {
        <Self::PublicKey as Group>::generator() * sk
    }

    /// Get the public key share corresponding to the secret key share
    fn public_key_share(sks: &Self::SecretKeyShare) -> BlsResult<Self::PublicKeyShare> {
        Self::public_key_share_with_generator(sks, <Self::PublicKey as Group>::generator())
    }

    /// Get the public key share corresponding to the secret key share and a generator
    fn public_key_share_with_generator(
        sks: &Self::SecretKeyShare,
        generator: Self::PublicKey,
    ) -> BlsResult<Self::PublicKeyShare> {
        let sk = sks.as_field_element::<<Self::PublicKey as Group>::Scalar>()?;
        let pk: Self::PublicKey = generator * sk;
        let pk_bytes = pk.to_bytes();
        let mut pk_share = Self::PublicKeyShare::empty_share_with_capacity(pk_bytes.as_ref().len());
        *pk_share.identifier_mut() = sks.identifier();
        pk_share
            .value_mut(pk_bytes.as_ref())
            .map_err(|_| BlsError::VsssError)?;
        Ok(pk_share)
    }

    /// Aggregate signatures
    fn aggregate_signatures<S>(sigs: S) -> Self::Signature
    where
        S: Iterator<Item = Self::Signature>,
    {
        let mut r = <Self::Signature as Group>::identity();
        for s in sigs {
            r += s;
        }
        r
    }

    /// Aggregate public keys
    fn aggregate_public_keys<P>(pks: P) -> Self::PublicKey
    where
        P: Iterator<Item = Self::PublicKey>,
    {
        let mut r = <Self::PublicKey as Group>::identity();
        for p in pks {
            r += p;
        }
        r
    }

    /// Compute a signature share
    fn core_partial_sign<B: AsRef<[u8]>, C: AsRef<[u8]>>(
        sks: &Self::SecretKeyShare,
        msg: B,
        dst: C,
    ) -> BlsResult<Self::SignatureShare> {
        let sk = sks.as_field_element()?;
        let sig = <Self as BlsSignatureCore>::core_sign(&sk, msg, dst.as_ref())?;
        let sig_bytes = sig.to_bytes();
        let mut sig_share =
            <Self as Pairing>::SignatureShare::empty_share_with_capacity(sig_bytes.as_ref().len());
        *sig_share.identifier_mut() = sks.identifier();
        sig_share
            .value_mut(sig_bytes.as_ref())
            .map_err(|_| BlsError::VsssError)?;
        Ok(sig_share)
    }

    /// Verify a signature share
    fn core_signature_share_verify<B: AsRef<[u8]>, C: AsRef<[u8]>>(
        pks: Self::PublicKeyShare,
        sig: Self::SignatureShare,
        msg: B,
        dst: C,
    ) -> BlsResult<()> {
        if pks.identifier() != sig.identifier() {
            return Err(BlsError::InvalidInputs(
                "signature and public shares do not correspond".to_string(),
            ));
        }
        let pk = pks.as_group_element()?;
        let sig = sig.as_group_element()?;
        Self::core_verify(pk, sig, msg, dst)
    }

    /// Combine signature shares to form a signature
    fn core_combine_signature_shares(
        shares: &[Self::SignatureShare],
    ) -> BlsResult<Self::Signature> {
        let sig = combine_shares_group(shares)?;
        Ok(sig)
    }

    /// Combine public key shares to form a public key
    fn core_combine_public_key_shares(
        shares: &[Self::PublicKeyShare],
    ) -> BlsResult<Self::PublicKey> {
        let pk = combine_shares_group(shares)?;
        Ok(pk)
    }

    /// Compute a signature
    fn core_sign<B: AsRef<[u8]>, C: AsRef<[u8]>>(
        sk: &<Self::PublicKey as Group>::Scalar,
        msg: B,
        dst: C,
    ) -> BlsResult<Self::Signature> {
        if sk.is_zero().into() {
            return Err(BlsError::SigningError("signing key is zero".to_string()));
        }
        Ok(Self::hash_to_point(msg, dst) * sk)
    }

    /// Verify a signature and message
    fn core_verify<B: AsRef<[u8]>, C: AsRef<[u8]>>(
        pk: Self::PublicKey,
        sig: Self::Signature,
        msg: B,
        dst: C,
    ) -> BlsResult<()> {
        if sig.is_identity().into() {
            return Err(BlsError::InvalidInputs(
                "signature is the identity point".to_string(),
            ));
        }
        if pk.is_identity().into() {
            return Err(BlsError::InvalidInputs(
                "public key is the identity point".to_string(),
            ));
        }
        let a = Self::hash_to_point::<B, C>(msg, dst);
        let generator = -Self::PublicKey::generator();
        if Self::pairing(&[(a, pk), (sig, generator)])
            .is_identity()
            .into()
        {
            Ok(())
        } else {
            Err(BlsError::InvalidSignature)
        }
    }

    /// Verify an aggregate signature and messages
    fn core_aggregate_verify<P, B, C>(pks: P, sig: Self::Signature, dst: C) -> BlsResult<()>
    where
        P: Iterator<Item = (Self::PublicKey, B)>,
        B: AsRef<[u8]>,
        C: AsRef<[u8]>,
    {
        if sig.is_identity().into() {
            return Err(BlsError::InvalidInputs(
                "signature is the identity point".to_string(),
            ));
        }
        let mut pairs = Vec::with_capacity(1);
        for (i, (pk, msg)) in pks.enumerate() {
            if pk.is_identity().into() {
                return Err(BlsError::InvalidInputs(format!(
                    "public key at {} is the identity point",
                    i + 1
                )));
            }
            let a = Self::hash_to_point::<_, _>(msg.as_ref(), dst.as_ref());
            debug_assert_eq!(a.is_identity().unwrap_u8(), 0u8);
            pairs.push((a, pk));
        }
        pairs.push((sig, -<Self::PublicKey as Group>::generator()));
        if Self::pairing(pairs.as_slice()).is_identity().into() {
            Ok(())
        } else {
            Err(BlsError::InvalidSignature)
        }
    }
}
