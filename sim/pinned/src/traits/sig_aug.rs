use crate::impls::inner_types::*;
use crate::*;

/// BLS signature augmentation trait
pub trait BlsSignatureMessageAugmentation: BlsSignatureCore {
    /// The domain separation tag
    const DST: &'static [u8];

    /// The signing algorithm
    fn sign<B: AsRef<[u8]>>(
        sk: &<Self::PublicKey as Group>::Scalar,
        msg: B,
    ) -> BlsResult<Self::Signature> {
        let mut overhead = Self::pk_bytes(Self::public_key(sk), msg.as_ref().len());
        overhead.extend_from_slice(msg.as_ref());
        <Self as BlsSignatureCore>::core_sign(sk, overhead.as_slice(), Self::DST)
    }

    /// The verification algorithm
    fn verify<B: AsRef<[u8]>>(pk: Self::PublicKey, sig: Self::Signature, msg: B) -> BlsResult<()> {
        let mut overhead = Self::pk_bytes(pk, msg.as_ref().len());
        overhead.extend_from_slice(msg.as_ref());
        <Self as BlsSignatureCore>::core_verify(pk, sig, overhead.as_slice(), Self::DST)
    }

    /// The aggregate verification algorithm
    fn aggregate_verify<P, B>(pks: P, sig: Self::Signature) -> BlsResult<()>
    where
        P: Iterator<Item = (Self::PublicKey, B)>,
        B: AsRef<[u8]>,
    {
        let new_pks = pks.map(|(pk, m)| {
            let mut overhead = Self::pk_bytes(pk, m.as_ref().len());
            overhead.extend_from_slice(m.as_ref());
            (pk, overhead)
        });
        <Self as BlsSignatureCore>::core_aggregate_verify(new_pks, sig, Self::DST)
    }

    /// The bytes of a public key
    fn pk_bytes(pk: Self::PublicKey, size_hint: usize) -> Vec<u8> {
        let pk_bytes = pk.to_bytes();
        let pk_bytes_ref = pk_bytes.as_ref();
        let mut overhead = Vec::with_capacity(pk_bytes_ref.len() + size_hint);
        overhead.extend_from_slice(pk_bytes_ref);
        overhead
    }
}
