use super::*;
use crate::impls::inner_types::*;
use crate::{BlsError, BlsResult};
use rand_core::{CryptoRng, RngCore};

const SALT: &[u8] = b"ELGAMAL_BLS12381_XOF:HKDF-SHA2-256_";

/// The methods for implementing ElGamal encryption
/// and derived ZKPs
pub trait BlsElGamal: Pairing + HashToScalar<Output = <Self::PublicKey as Group>::Scalar> {
    /// The hash to public key group DST
    const ENC_DST: &'static [u8];
    /// A hasher that can hash to a public key
    type PublicKeyHasher: HashToPoint<Output = Self::PublicKey>;

    /// Create a scalar from 64 bytes
    fn scalar_from_bytes_wide(bytes: &[u8; 64]) -> <Self::PublicKey as Group>::Scalar;

    /// Generate the message generator in a deterministic manner
    fn message_generator() -> Self::PublicKey {
        let g = Self::PublicKey::generator();
        Self::PublicKeyHasher::hash_to_point(g.to_bytes().as_ref(), Self::ENC_DST)
    }

    /// Encrypt a scalar
    fn seal_scalar(
        pk: Self::PublicKey,
        message: <Self::PublicKey as Group>::Scalar,
        generator: Option<Self::PublicKey>,
        blinder: Option<<Self::PublicKey as Group>::Scalar>,
        rng: impl CryptoRng + RngCore,
    ) -> BlsResult<(Self::PublicKey, Self::PublicKey)> {
        let generator = generator.unwrap_or_else(|| Self::message_generator());

        if (generator.is_identity() | pk.is_identity()).into() {
            return Err(BlsError::InvalidInputs(
                "Generator or public key is identity point".to_string(),
            ));
        }

        // odds of this being zero are 2^-256 so we can ignore checking for zero
        let blinder = blinder.unwrap_or_else(|| <Self::PublicKey as Group>::Scalar::random(rng));
        debug_assert_eq!(blinder.is_zero().unwrap_u8(), 0u8);

        let ek = generator * message;
        debug_assert_eq!(ek.is_identity().unwrap_u8(), 0u8);
        let c1 = Self::PublicKey::generator() * blinder;
        debug_assert_eq!(c1.is_identity().unwrap_u8(), 0u8);
        let c2 = pk * blinder + ek;
        debug_assert_eq!(c2.is_identity().unwrap_u8(), 0u8);

        Ok((c1, c2))
    }

    /// Encrypt a point
    fn seal_point(
        pk: Self::PublicKey,
        message: Self::PublicKey,
        blinder: Option<<Self::PublicKey as Group>::Scalar>,
        rng: impl CryptoRng + RngCore,
    ) -> BlsResult<(Self::PublicKey, Self::PublicKey)> {
        if pk.is_identity().into() {
            return Err(BlsError::InvalidInputs(
                "Generator or public key is identity point".to_string(),
            ));
        }
        // odds of this being zero are 2^-256 so we can ignore checking for zero
        let blinder = blinder.unwrap_or_else(|| <Self::PublicKey as Group>::Scalar::random(rng));
        debug_assert_eq!(blinder.is_zero().unwrap_u8(), 0u8);
        let c1 = Self::PublicKey::generator() * blinder;
        debug_assert_eq!(c1.is_identity().unwrap_u8(), 0u8);
        let c2 = pk * blinder + message;
        debug_assert_eq!(c2.is_identity().unwrap_u8(), 0u8);
        Ok((c1, c2))
    }

    /// Encrypt a scalar and generate a ZKP
    #[allow(clippy::type_complexity)]
    fn seal_scalar_with_proof(
        pk: Self::PublicKey,
        message: <Self::PublicKey as Group>::Scalar,
        generator: Option<Self::PublicKey>,
        blinder: Option<<Self::PublicKey as Group>::Scalar>,
        mut rng: impl CryptoRng + RngCore,
    ) -> BlsResult<(
        Self::PublicKey,
        Self::PublicKey,
        <Self::PublicKey as Group>::Scalar,
        <Self::PublicKey as Group>::Scalar,
        <Self::PublicKey as Group>::Scalar,
    )> {
        if pk.is_identity().into() {
            return Err(BlsError::InvalidInputs(
                "public key is the identity point".to_string(),
            ));
        }
        let generator = generator.unwrap_or_else(|| Self::message_generator());
        debug_assert_eq!(generator.is_identity().unwrap_u8(), 0u8);
        let b = blinder.unwrap_or_else(|| <Self::PublicKey as Group>::Scalar::random(&mut rng));
        debug_assert_eq!(b.is_zero().unwrap_u8(), 0u8);
        let r = <Self::PublicKey as Group>::Scalar::random(&mut rng);
        debug_assert_eq!(r.is_zero().unwrap_u8(), 0u8);
        // c1 = P^b
        // c2 = H^m * P^ab
        let (c1, c2) = Self::seal_scalar(pk, message, Some(generator), Some(b), &mut rng)?;
        debug_assert_eq!(c1.is_identity().unwrap_u8(), 0u8);
        debug_assert_eq!(c2.is_identity().unwrap_u8(), 0u8);
        // r1 = P^r
        // r2 = H^b * P^ar
        let (r1, r2) = Self::seal_scalar(pk, b, Some(generator), Some(r), &mut rng)?;
        debug_assert_eq!(r1.is_identity().unwrap_u8(), 0u8);
        debug_assert_eq!(r2.is_identity().unwrap_u8(), 0u8);

        let mut transcript = merlin::Transcript::new(b"ElGamalProof");
        transcript.append_message(b"dst", SALT);
        transcript.append_message(
            b"base point",
            Self::PublicKey::generator().to_bytes().as_ref(),
        );
        transcript.append_message(b"pk", pk.to_bytes().as_ref());
        transcript.append_message(b"generator", generator.to_bytes().as_ref());
        transcript.append_message(b"c1", c1.to_bytes().as_ref());
        transcript.append_message(b"c2", c2.to_bytes().as_ref());
        transcript.append_message(b"r1", r1.to_bytes().as_ref());
        transcript.append_message(b"r2", r2.to_bytes().as_ref());
        let mut challenge = [0u8; 64];
        transcript.challenge_bytes(b"challenge", &mut challenge);
        let challenge = Self::scalar_from_bytes_wide(&challenge);
        debug_assert_eq!(challenge.is_zero().unwrap_u8(), 0u8);

        let message_proof = b + challenge * message;
        debug_assert_eq!(message_proof.is_zero().unwrap_u8(), 0u8);
        let blinder_proof = r + challenge * b;
        debug_assert_eq!(blinder_proof.is_zero().unwrap_u8(), 0u8);
        Ok((c1, c2, message_proof, blinder_proof, challenge))
    }

    /// Decrypt an ElGamal ciphertext and return the resulting point
    ///
    /// If a scalar was encrypted, the value is in the exponent
    /// If a point was encrypted, the actual value is the result
    fn decrypt(
        sk: <Self::PublicKey as Group>::Scalar,
        c1: Self::PublicKey,
        c2: Self::PublicKey,
    ) -> Self::PublicKey {
        c2 - c1 * sk
    }

    /// Verify an elgamal proof and decrypt the resulting point if the proof is valid
    fn verify_and_decrypt(
        sk: <Self::PublicKey as Group>::Scalar,
        generator: Option<Self::PublicKey>,
        c1: Self::PublicKey,
        c2: Self::PublicKey,
        message_proof: <Self::PublicKey as Group>::Scalar,
        blinder_proof: <Self::PublicKey as Group>::Scalar,
        challenge: <Self::PublicKey as Group>::Scalar,
    ) -> BlsResult<Self::PublicKey> {
        if sk.is_zero().into() {
            return Err(BlsError::InvalidInputs("secret key is zero".to_string()));
        }
        let pk = Self::PublicKey::generator() * sk;
        Self::verify_proof(
            pk,
            generator,
            c1,
            c2,
            message_proof,
            blinder_proof,
            challenge,
        )?;
        Ok(Self::decrypt(sk, c1, c2))
    }

    /// Verify an elgamal proof
    fn verify_proof(
        pk: Self::PublicKey,
        generator: Option<Self::PublicKey>,
        c1: Self::PublicKey,
        c2: Self::PublicKey,
        message_proof: <Self::PublicKey as Group>::Scalar,
        blinder_proof: <Self::PublicKey as Group>::Scalar,
        challenge: <Self::PublicKey as Group>::Scalar,
    ) -> BlsResult<()> {
        let generator = generator.unwrap_or_else(|| Self::message_generator());
        if (pk.is_identity() | generator.is_identity() | c1.is_identity() | c2.is_identity()).into()
        {
            return Err(BlsError::InvalidInputs(
                "Parameters or ciphertext values are identity point".to_string(),
            ));
        }
        if (message_proof.is_zero() | blinder_proof.is_zero() | challenge.is_zero()).into() {
            return Err(BlsError::InvalidInputs("Proof values are zero".to_string()));
        }

        let neg_challenge = -challenge;
        // r1 = P^-bc P^(r + b * c)
        let r1 = c1 * neg_challenge + Self::PublicKey::generator() * blinder_proof;
        // r1 = H^-mc P^-abc H^(b + m * c) P^a(r + b * c)
        let r2 = c2 * neg_challenge + generator * message_proof + pk * blinder_proof;

        let mut transcript = merlin::Transcript::new(b"ElGamalProof");
        transcript.append_message(b"dst", SALT);
        transcript.append_message(
            b"base point",
            Self::PublicKey::generator().to_bytes().as_ref(),
        );
        transcript.append_message(b"pk", pk.to_bytes().as_ref());
        transcript.append_message(b"generator", generator.to_bytes().as_ref());
        transcript.append_message(b"c1", c1.to_bytes().as_ref());
        transcript.append_message(b"c2", c2.to_bytes().as_ref());
        transcript.append_message(b"r1", r1.to_bytes().as_ref());
        transcript.append_message(b"r2", r2.to_bytes().as_ref());
        let mut challenge_bytes = [0u8; 64];
        transcript.challenge_bytes(b"challenge", &mut challenge_bytes);
        let challenge_verifier = Self::scalar_from_bytes_wide(&challenge_bytes);

        if challenge != challenge_verifier {
            Err(BlsError::InvalidInputs(
                "Challenge values do not match".to_string(),
            ))
        } else {
            Ok(())
        }
    }
}
