use crate::impls::inner_types::*;
use crate::*;

/// BLS signature proof of possession trait
pub trait BlsSignaturePop: BlsSignatureCore + BlsMultiSignature + BlsMultiKey {
    /// The signature domain separation tag
    const SIG_DST: &'static [u8];
    /// The proof of possession domain separation tag
    const POP_DST: &'static [u8];

    /// Sign a message with a secret key share
    fn partial_sign<B: AsRef<[u8]>>(
        sks: &Self::SecretKeyShare,
        msg: B,
    ) -> BlsResult<Self::SignatureShare> {
        <Self as BlsSignatureCore>::core_partial_sign(sks, msg, Self::SIG_DST)
    }

    /// Verify a signed message by a secret key share
    fn partial_verify<B: AsRef<[u8]>>(
        pks: Self::PublicKeyShare,
        sig: Self::SignatureShare,
        msg: B,
    ) -> BlsResult<()> {
        <Self as BlsSignatureCore>::core_signature_share_verify(pks, sig, msg, Self::SIG_DST)
    }

    /// The signing algorithm
    fn sign<B: AsRef<[u8]>>(
        sk: &<Self::PublicKey as Group>::Scalar,
        msg: B,
    ) -> BlsResult<Self::Signature> {
        <Self as BlsSignatureCore>::core_sign(sk, msg, Self::SIG_DST)
    }

    /// The verification algorithm
    fn verify<B: AsRef<[u8]>>(pk: Self::PublicKey, sig: Self::Signature, msg: B) -> BlsResult<()> {
        <Self as BlsSignatureCore>::core_verify(pk, sig, msg, Self::SIG_DST)
    }

    /// The multi-signature verification algorithm
    fn multi_sig_verify<P: Iterator<Item = Self::PublicKey>, B: AsRef<[u8]>>(
        pks: P,
        sig: Self::Signature,
        msg: B,
    ) -> BlsResult<()> {
        let apk = <Self as BlsSignatureCore>::aggregate_public_keys(pks);
        <Self as BlsSignatureCore>::core_verify(apk, sig, msg, Self::SIG_DST)
    }

    /// The aggregate verification algorithm
    fn aggregate_verify<P, B>(pks: P, sig: Self::Signature) -> BlsResult<()>
    where
        P: Iterator<Item = (Self::PublicKey, B)>,
        B: AsRef<[u8]>,
    {
        <Self as BlsSignatureCore>::core_aggregate_verify(pks, sig, Self::SIG_DST)
    }

    /// The proof of possession signing algorithm
    fn pop_prove(sk: &<Self::PublicKey as Group>::Scalar) -> BlsResult<Self::Signature> {
        let pk_bytes = Self::public_key(sk).to_bytes();
        <Self as BlsSignatureCore>::core_sign(sk, pk_bytes, Self::POP_DST)
    }

    /// The proof of possession verification algorithm
    fn pop_verify(pk: Self::PublicKey, sig: Self::Signature) -> BlsResult<()> {
        let pk_bytes = pk.to_bytes();
        <Self as BlsSignatureCore>::core_verify(pk, sig, pk_bytes, Self::POP_DST)
    }
}
