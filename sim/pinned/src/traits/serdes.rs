use crate::impls::inner_types::*;
use crate::traits::Pairing;
use serde::{Deserializer, Serializer};

/// Serialization trait for inner types
pub trait BlsSerde: Pairing {
    /// Serialize a scalar
    fn serialize_scalar<S: Serializer>(
        scalar: &<Self::PublicKey as Group>::Scalar,
        serializer: S,
    ) -> Result<S::Ok, S::Error>;
    /// Serialize a scalar share
    fn serialize_scalar_share<S: Serializer>(
        share: &Self::SecretKeyShare,
        serializer: S,
    ) -> Result<S::Ok, S::Error>;
    /// Serialize a signature
    fn serialize_signature<S: Serializer>(
        signature: &Self::Signature,
        serializer: S,
    ) -> Result<S::Ok, S::Error>;
    /// Serialize a public key
    fn serialize_public_key<S: Serializer>(
        public_key: &Self::PublicKey,
        serializer: S,
    ) -> Result<S::Ok, S::Error>;
    /// Serialize a public key share
    fn serialize_public_key_share<S: Serializer>(
        public_key_share: &Self::PublicKeyShare,
        serializer: S,
    ) -> Result<S::Ok, S::Error>;

    /// Deserialize a scalar
    fn deserialize_scalar<'de, D: Deserializer<'de>>(
        deserializer: D,
    ) -> Result<<Self::PublicKey as Group>::Scalar, D::Error>;
    /// Deserialize a scalar share
    fn deserialize_scalar_share<'de, D: Deserializer<'de>>(
        deserializer: D,
    ) -> Result<Self::SecretKeyShare, D::Error>;
    /// Deserialize a signature
    fn deserialize_signature<'de, D: Deserializer<'de>>(
        deserializer: D,
    ) -> Result<Self::Signature, D::Error>;
    /// Deserialize a public key
    fn deserialize_public_key<'de, D: Deserializer<'de>>(
        deserializer: D,
    ) -> Result<Self::PublicKey, D::Error>;
    /// Deserialize a public key share
    fn deserialize_public_key_share<'de, D: Deserializer<'de>>(
        deserializer: D,
    ) -> Result<Self::PublicKeyShare, D::Error>;
}

pub(crate) mod secret_key_share {
    use super::*;

    pub fn serialize<B: BlsSerde, S: Serializer>(
        sks: &B::SecretKeyShare,
        s: S,
    ) -> Result<S::Ok, S::Error> {
        B::serialize_scalar_share(sks, s)
    }

    pub fn deserialize<'de, B: BlsSerde, D: Deserializer<'de>>(
        d: D,
    ) -> Result<B::SecretKeyShare, D::Error> {
        B::deserialize_scalar_share(d)
    }
}

pub(crate) mod public_key_share {
    use super::*;

    pub fn serialize<B: BlsSerde, S: Serializer>(
        pks: &B::PublicKeyShare,
        s: S,
    ) -> Result<S::Ok, S::Error> {
        B::serialize_public_key_share(pks, s)
    }

    pub fn deserialize<'de, B: BlsSerde, D: Deserializer<'de>>(
        d: D,
    ) -> Result<B::PublicKeyShare, D::Error> {
        B::deserialize_public_key_share(d)
    }
}

pub(crate) mod public_key {
    use super::*;

    pub fn serialize<B: BlsSerde, S: Serializer>(
        pk: &B::PublicKey,
        s: S,
    ) -> Result<S::Ok, S::Error> {
        B::serialize_public_key(pk, s)
    }

    pub fn deserialize<'de, B: BlsSerde, D: Deserializer<'de>>(
        d: D,
    ) -> Result<B::PublicKey, D::Error> {
        B::deserialize_public_key(d)
    }
}

pub(crate) mod signature {
    use super::*;

    pub fn serialize<B: BlsSerde, S: Serializer>(
        sig: &B::Signature,
        s: S,
    ) -> Result<S::Ok, S::Error> {
        B::serialize_signature(sig, s)
    }

    pub fn deserialize<'de, B: BlsSerde, D: Deserializer<'de>>(
        d: D,
    ) -> Result<B::Signature, D::Error> {
        B::deserialize_signature(d)
    }
}

pub(crate) mod scalar {
    use super::*;

    pub fn serialize<B: BlsSerde, S: Serializer>(
        sig: &<B::PublicKey as Group>::Scalar,
        s: S,
    ) -> Result<S::Ok, S::Error> {
        B::serialize_scalar(sig, s)
    }

    pub fn deserialize<'de, B: BlsSerde, D: Deserializer<'de>>(
        d: D,
    ) -> Result<<B::PublicKey as Group>::Scalar, D::Error> {
        B::deserialize_scalar(d)
    }
}
