use crate::impls::inner_types::*;
use crate::*;

/// A trait that defines the BLS schemes that support multi-signatures
pub trait BlsMultiKey: BlsSignatureCore {
    /// Merges multiple public keys into one
    fn from_public_keys<I: Iterator<Item = Self::PublicKey>>(keys: I) -> Self::PublicKey {
        let mut g = Self::PublicKey::identity();
        for key in keys {
            g += key;
        }
        g
    }
}
