use crate::impls::inner_types::*;
use core::fmt::Display;

/// The hash to scalar methods
pub trait HashToScalar {
    /// The output scalar ground
    type Output: PrimeField + Display;

    /// Compute the output from a hash method
    fn hash_to_scalar<B: AsRef<[u8]>, C: AsRef<[u8]>>(m: B, dst: C) -> Self::Output;
}
