use crate::impls::inner_types::*;
use core::fmt::Display;
use serde::de::DeserializeOwned;
use serde::Serialize;
use subtle::ConditionallySelectable;
use vsss_rs::Share;

/// Operations that support pairing trait
pub trait Pairing {
    /// The secret key share
    type SecretKeyShare: Share<Identifier = u8> + core::fmt::Debug;
    /// The public key group
    type PublicKey: Group + GroupEncoding + Default + Display + ConditionallySelectable;
    /// The public key share
    type PublicKeyShare: Share<Identifier = u8>
        + Copy
        + Display
        + core::fmt::Debug
        + ConditionallySelectable
        + Serialize
        + DeserializeOwned;
    /// The signature group
    type Signature: Group<Scalar = <Self::PublicKey as Group>::Scalar>
        + GroupEncoding
        + Default
        + Display
        + ConditionallySelectable;
    /// The signature share
    type SignatureShare: Share<Identifier = u8>
        + Copy
        + Display
        + core::fmt::Debug
        + ConditionallySelectable
        + Serialize
        + DeserializeOwned;
    /// The target group from a pairing computation
    type PairingResult: Group + GroupEncoding + Default + Display + ConditionallySelectable;
    /// Compute the pairing based on supplied points
    fn pairing(points: &[(Self::Signature, Self::PublicKey)]) -> Self::PairingResult;
}
