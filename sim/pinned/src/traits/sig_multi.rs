use crate::impls::inner_types::*;
use crate::*;

/// A trait that defines the BLS schemes that support multi-signatures
pub trait BlsMultiSignature: BlsSignatureCore {
    /// Merges multiple signatures into one
    fn from_signatures<I: Iterator<Item = Self::Signature>>(signatures: I) -> Self::Signature {
        let mut g = Self::Signature::identity();
        for sig in signatures {
            g += sig;
        }
        g
    }
}
