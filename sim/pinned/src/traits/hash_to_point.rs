use crate::impls::inner_types::*;
use core::fmt::Display;
use subtle::ConditionallySelectable;

/// The hash to curve point methods
pub trait HashToPoint {
    /// The output point group
    type Output: Group + GroupEncoding + Default + Display + ConditionallySelectable;

    /// Compute the output from a hash method
    fn hash_to_point<B: AsRef<[u8]>, C: AsRef<[u8]>>(m: B, dst: C) -> Self::Output;
}
