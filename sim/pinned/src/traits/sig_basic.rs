use crate::impls::inner_types::*;
use crate::*;
use std::collections::HashMap;

/// BLS signature basic trait
pub trait BlsSignatureBasic: BlsSignatureCore + BlsMultiSignature + BlsMultiKey {
    /// The domain separation tag
    const DST: &'static [u8];

    /// Sign a message with a secret key share
    fn partial_sign<B: AsRef<[u8]>>(
        sks: &Self::SecretKeyShare,
        msg: B,
    ) -> BlsResult<Self::SignatureShare> {
        <Self as BlsSignatureCore>::core_partial_sign(sks, msg, Self::DST)
    }

    /// Verify a signed message by a secret key share
    fn partial_verify<B: AsRef<[u8]>>(
        pks: Self::PublicKeyShare,
        sig: Self::SignatureShare,
        msg: B,
    ) -> BlsResult<()> {
        <Self as BlsSignatureCore>::core_signature_share_verify(pks, sig, msg, Self::DST)
    }

    /// The signing algorithm
    fn sign<B: AsRef<[u8]>>(
        sk: &<Self::PublicKey as Group>::Scalar,
        msg: B,
    ) -> BlsResult<Self::Signature> {
        <Self as BlsSignatureCore>::core_sign(sk, msg, Self::DST)
    }

    /// The verification algorithm
    fn verify<B: AsRef<[u8]>>(pk: Self::PublicKey, sig: Self::Signature, msg: B) -> BlsResult<()> {
        <Self as BlsSignatureCore>::core_verify(pk, sig, msg, Self::DST)
    }

    /// The aggregate verification algorithm
    fn aggregate_verify<P, B>(pks: P, sig: Self::Signature) -> BlsResult<()>
    where
        P: Iterator<Item = (Self::PublicKey, B)>,
        B: AsRef<[u8]>,
    {
        // check uniqueness
        let mut set = HashMap::new();
        let mut inputs = Vec::new();
        for (i, (pk, m)) in pks.enumerate() {
            let item = m.as_ref().to_vec();
            if let Some(old) = set.insert(item.clone(), i) {
                return Err(BlsError::InvalidInputs(format!(
                    "duplicate messages detected at {} and {}",
                    old, i
                )));
            }
            inputs.push((pk, item));
        }
        <Self as BlsSignatureCore>::core_aggregate_verify(
            inputs.iter().map(|(pk, b)| (*pk, b.as_slice())),
            sig,
            Self::DST,
        )
    }
}
