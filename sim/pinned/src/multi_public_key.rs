use crate::impls::inner_types::*;
use crate::*;

/// An accumulated public key
#[derive(Default, PartialEq, Eq, Serialize, Deserialize)]
pub struct MultiPublicKey<C: BlsSignatureImpl>(
    /// The inner raw value
    #[serde(serialize_with = "traits::public_key::serialize::<C, _>")]
    #[serde(deserialize_with = "traits::public_key::deserialize::<C, _>")]
    pub <C as Pairing>::PublicKey,
);

impl<C: BlsSignatureImpl> core::fmt::Display for MultiPublicKey<C> {
    fn fmt(&self, f: &mut core::fmt::Formatter) -> core::fmt::Result {
        write!(f, "{}", self.0)
    }
}

impl<C: BlsSignatureImpl> core::fmt::Debug for MultiPublicKey<C> {
    fn fmt(&self, f: &mut core::fmt::Formatter) -> core::fmt::Result {
        write!(f, "{:?}", self.0)
    }
}

impl<C: BlsSignatureImpl> Copy for MultiPublicKey<C> {}

impl<C: BlsSignatureImpl> Clone for MultiPublicKey<C> {
    fn clone(&self) -> Self {
        *self
    }
}

impl<C: BlsSignatureImpl> subtle::ConditionallySelectable for MultiPublicKey<C> {
    fn conditional_select(a: &Self, b: &Self, choice: Choice) -> Self {
        Self(<C as Pairing>::PublicKey::conditional_select(
            &a.0, &b.0, choice,
        ))
    }
}

impl<C: BlsSignatureImpl> From<&[PublicKey<C>]> for MultiPublicKey<C> {
    fn from(keys: &[PublicKey<C>]) -> Self {
        Self::from_public_keys(keys)
    }
}

impl_from_derivatives_generic!(MultiPublicKey);

impl<C: BlsSignatureImpl> From<&MultiPublicKey<C>> for Vec<u8> {
    fn from(pk: &MultiPublicKey<C>) -> Self {
        pk.0.to_bytes().as_ref().to_vec()
    }
}

impl<C: BlsSignatureImpl> TryFrom<&[u8]> for MultiPublicKey<C> {
    type Error = BlsError;

    fn try_from(value: &[u8]) -> Result<Self, Self::Error> {
        let mut repr = C::PublicKey::default().to_bytes();
        let len = repr.as_ref().len();

        if len != value.len() {
            return Err(BlsError::InvalidInputs(format!(
                "Invalid length, expected {}, got {}",
                len,
                value.len()
            )));
        }

        repr.as_mut().copy_from_slice(value);
        let key: Option<C::PublicKey> = C::PublicKey::from_bytes(&repr).into();
        key.map(Self)
            .ok_or_else(|| BlsError::InvalidInputs("Invalid byte sequence".to_string()))
    }
}

impl<C: BlsSignatureImpl> MultiPublicKey<C> {
    /// Accumulate multiple public keys into a single public key
    pub fn from_public_keys<B: AsRef<[PublicKey<C>]>>(keys: B) -> Self {
        Self(<C as BlsMultiKey>::from_public_keys(
            keys.as_ref().iter().map(|k| k.0),
        ))
    }
}
