use crate::*;
use subtle::CtOption;

/// The ciphertext output from sign crypt encryption
#[derive(Clone, Debug, Default, Eq, PartialEq, serde::Serialize, serde::Deserialize)]
pub struct SignCryptCiphertext<C: BlsSignatureImpl> {
    /// The `u` component
    #[serde(serialize_with = "traits::public_key::serialize::<C, _>")]
    #[serde(deserialize_with = "traits::public_key::deserialize::<C, _>")]
    pub u: <C as Pairing>::PublicKey,
    /// The `v` component
    pub v: Vec<u8>,
    /// The `w` component
    #[serde(serialize_with = "traits::signature::serialize::<C, _>")]
    #[serde(deserialize_with = "traits::signature::deserialize::<C, _>")]
    pub w: <C as Pairing>::Signature,
    /// The signature scheme used to generate this ciphertext
    pub scheme: SignatureSchemes,
}

impl<C: BlsSignatureImpl> core::fmt::Display for SignCryptCiphertext<C> {
    fn fmt(&self, f: &mut core::fmt::Formatter<'_>) -> core::fmt::Result {
        write!(
            f,
            "{{ u: {}, v: {:?}, w: {}, scheme: {:?} }}",
            self.u, self.v, self.w, self.scheme
        )
    }
}

impl<C: BlsSignatureImpl> From<&SignCryptCiphertext<C>> for Vec<u8> {
    fn from(value: &SignCryptCiphertext<C>) -> Self {
        serde_bare::to_vec(value).expect("failed to serialize SignCryptCiphertext")
    }
}

impl<C: BlsSignatureImpl> TryFrom<&[u8]> for SignCryptCiphertext<C> {
    type Error = BlsError;

    fn try_from(value: &[u8]) -> BlsResult<Self> {
        let output = serde_bare::from_slice(value)?;
        Ok(output)
    }
}

impl_from_derivatives_generic!(SignCryptCiphertext);

impl<C: BlsSignatureImpl> SignCryptCiphertext<C> {
    /// Create a decryption share from a secret key share
    pub fn create_decryption_share(
        &self,
        sks: &SecretKeyShare<C>,
    ) -> BlsResult<SignDecryptionShare<C>> {
        Ok(SignDecryptionShare(
            <C as BlsSignatureCore>::public_key_share_with_generator(&sks.0, self.u)?,
        ))
    }

    /// Open the ciphertext given the decryption shares.
    pub fn decrypt_with_shares<B: AsRef<[SignDecryptionShare<C>]>>(
        &self,
        shares: B,
    ) -> CtOption<Vec<u8>> {
        let dst = match self.scheme {
            SignatureSchemes::Basic => <C as BlsSignatureBasic>::DST,
            SignatureSchemes::MessageAugmentation => <C as BlsSignatureMessageAugmentation>::DST,
            SignatureSchemes::ProofOfPossession => <C as BlsSignaturePop>::SIG_DST,
        };

        let shares = shares.as_ref().iter().map(|s| s.0).collect::<Vec<_>>();
        <C as BlsSignCrypt>::unseal_with_shares(self.u, &self.v, self.w, shares.as_slice(), dst)
    }

    /// Decrypt the signcrypt ciphertext
    pub fn decrypt(&self, sk: &SecretKey<C>) -> CtOption<Vec<u8>> {
        let dst = match self.scheme {
            SignatureSchemes::Basic => <C as BlsSignatureBasic>::DST,
            SignatureSchemes::MessageAugmentation => <C as BlsSignatureMessageAugmentation>::DST,
            SignatureSchemes::ProofOfPossession => <C as BlsSignaturePop>::SIG_DST,
        };

        <C as BlsSignCrypt>::unseal(self.u, &self.v, self.w, &sk.0, dst)
    }

    /// Check if the ciphertext is valid
    pub fn is_valid(&self) -> Choice {
        match self.scheme {
            SignatureSchemes::Basic => {
                <C as BlsSignCrypt>::valid(self.u, &self.v, self.w, <C as BlsSignatureBasic>::DST)
            }
            SignatureSchemes::MessageAugmentation => <C as BlsSignCrypt>::valid(
                self.u,
                &self.v,
                self.w,
                <C as BlsSignatureMessageAugmentation>::DST,
            ),
            SignatureSchemes::ProofOfPossession => {
                <C as BlsSignCrypt>::valid(self.u, &self.v, self.w, <C as BlsSignaturePop>::SIG_DST)
            }
        }
    }
}

/// A Signcrypt decryption key where the secret key is hidden or combined from shares
/// that can decrypt ciphertext
#[derive(Default, PartialEq, Eq, Serialize, Deserialize)]
pub struct SignCryptDecryptionKey<C: BlsSignatureImpl>(
    #[serde(serialize_with = "traits::public_key::serialize::<C, _>")]
    #[serde(deserialize_with = "traits::public_key::deserialize::<C, _>")]
    pub <C as Pairing>::PublicKey,
);

impl<C: BlsSignatureImpl> core::fmt::Debug for SignCryptDecryptionKey<C> {
    fn fmt(&self, f: &mut core::fmt::Formatter) -> core::fmt::Result {
        write!(f, "{:?}", self.0)
    }
}

impl<C: BlsSignatureImpl> Clone for SignCryptDecryptionKey<C> {
    fn clone(&self) -> Self {
        Self(self.0)
    }
}

impl<C: BlsSignatureImpl> From<&SignCryptDecryptionKey<C>> for Vec<u8> {
    fn from(value: &SignCryptDecryptionKey<C>) -> Self {
        serde_bare::to_vec(value).expect("failed to serialize SignCryptDecryptionKey")
    }
}

impl<C: BlsSignatureImpl> TryFrom<&[u8]> for SignCryptDecryptionKey<C> {
    type Error = BlsError;

    fn try_from(value: &[u8]) -> BlsResult<Self> {
        let output = serde_bare::from_slice(value)?;
        Ok(output)
    }
}

impl_from_derivatives_generic!(SignCryptDecryptionKey);

impl<C: BlsSignatureImpl> SignCryptDecryptionKey<C> {
    /// Decrypt signcrypt ciphertext
    pub fn decrypt(&self, ciphertext: &SignCryptCiphertext<C>) -> CtOption<Vec<u8>> {
        let dst = match ciphertext.scheme {
            SignatureSchemes::Basic => <C as BlsSignatureBasic>::DST,
            SignatureSchemes::MessageAugmentation => <C as BlsSignatureMessageAugmentation>::DST,
            SignatureSchemes::ProofOfPossession => <C as BlsSignaturePop>::SIG_DST,
        };

        let choice = <C as BlsSignCrypt>::valid(ciphertext.u, &ciphertext.v, ciphertext.w, dst);
        <C as BlsSignCrypt>::decrypt(&ciphertext.v, self.0, choice)
    }

    /// Combine decryption shares into a signcrypt decryption key
    pub fn from_shares(shares: &[SignDecryptionShare<C>]) -> BlsResult<Self> {
        let points = shares
            .iter()
            .map(|s| s.0)
            .collect::<Vec<<C as Pairing>::PublicKeyShare>>();
        <C as BlsSignatureCore>::core_combine_public_key_shares(&points).map(Self)
    }
}
