use crate::*;

/// Represents a share of a signature
#[derive(PartialEq, Eq, serde::Serialize, serde::Deserialize)]
pub enum SignatureShare<C: BlsSignatureImpl> {
    /// The basic signature scheme
    Basic(<C as Pairing>::SignatureShare),
    /// The message augmentation signature scheme
    MessageAugmentation(<C as Pairing>::SignatureShare),
    /// The proof of possession signature scheme
    ProofOfPossession(<C as Pairing>::SignatureShare),
}

impl<C: BlsSignatureImpl> Default for SignatureShare<C> {
    fn default() -> Self {
        Self::ProofOfPossession(<C as Pairing>::SignatureShare::empty_share_with_capacity(0))
    }
}

impl<C: BlsSignatureImpl> core::fmt::Display for SignatureShare<C> {
    fn fmt(&self, f: &mut core::fmt::Formatter) -> core::fmt::Result {
        match self {
            Self::Basic(s) => write!(f, "Basic({})", s),
            Self::MessageAugmentation(s) => write!(f, "MessageAugmentation({})", s),
            Self::ProofOfPossession(s) => write!(f, "ProofOfPossession({})", s),
        }
    }
}

impl<C: BlsSignatureImpl> core::fmt::Debug for SignatureShare<C> {
    fn fmt(&self, f: &mut core::fmt::Formatter) -> core::fmt::Result {
        match self {
            Self::Basic(s) => write!(f, "Basic({:?})", s),
            Self::MessageAugmentation(s) => write!(f, "MessageAugmentation({:?})", s),
            Self::ProofOfPossession(s) => write!(f, "ProofOfPossession({:?})", s),
        }
    }
}

impl<C: BlsSignatureImpl> Copy for SignatureShare<C> {}

impl<C: BlsSignatureImpl> Clone for SignatureShare<C> {
    fn clone(&self) -> Self {
        *self
    }
}

impl<C: BlsSignatureImpl> subtle::ConditionallySelectable for SignatureShare<C> {
    fn conditional_select(a: &Self, b: &Self, choice: Choice) -> Self {
        match (a, b) {
            (Self::Basic(a), Self::Basic(b)) => Self::Basic(
                <C as Pairing>::SignatureShare::conditional_select(a, b, choice),
            ),
            (Self::MessageAugmentation(a), Self::MessageAugmentation(b)) => {
                Self::MessageAugmentation(<C as Pairing>::SignatureShare::conditional_select(
                    a, b, choice,
                ))
            }
            (Self::ProofOfPossession(a), Self::ProofOfPossession(b)) => Self::ProofOfPossession(
                <C as Pairing>::SignatureShare::conditional_select(a, b, choice),
            ),
            _ => panic!("SignatureShare::conditional_select: mismatched variants"),
        }
    }
}

impl_from_derivatives_generic!(SignatureShare);

impl<C: BlsSignatureImpl> From<&SignatureShare<C>> for Vec<u8> {
    fn from(s: &SignatureShare<C>) -> Self {
        match s {
            SignatureShare::Basic(s) => serde_bare::to_vec(&(SignatureSchemes::Basic, s)).unwrap(),
            SignatureShare::MessageAugmentation(s) => {
                serde_bare::to_vec(&(SignatureSchemes::MessageAugmentation, s)).unwrap()
            }
            SignatureShare::ProofOfPossession(s) => {
                serde_bare::to_vec(&(SignatureSchemes::ProofOfPossession, s)).unwrap()
            }
        }
    }
}

impl<C: BlsSignatureImpl> TryFrom<&[u8]> for SignatureShare<C> {
    type Error = BlsError;

    fn try_from(bytes: &[u8]) -> BlsResult<Self> {
        let (scheme, s): (SignatureSchemes, <C as Pairing>::SignatureShare) =
            serde_bare::from_slice(bytes)
                .map_err(|_| BlsError::InvalidInputs("invalid byte sequence".to_string()))?;
        match scheme {
            SignatureSchemes::Basic => Ok(Self::Basic(s)),
            SignatureSchemes::MessageAugmentation => Ok(Self::MessageAugmentation(s)),
            SignatureSchemes::ProofOfPossession => Ok(Self::ProofOfPossession(s)),
        }
    }
}

impl<C: BlsSignatureImpl> SignatureShare<C> {
    /// Verify the signature share with the public key share
    pub fn verify<B: AsRef<[u8]>>(&self, pks: &PublicKeyShare<C>, msg: B) -> BlsResult<()> {
        pks.verify(self, msg)
    }

    /// Determine if two signature shares were signed using the same scheme
    pub fn same_scheme(&self, other: &Self) -> bool {
        matches!(
            (self, other),
            (Self::Basic(_), Self::Basic(_))
                | (Self::MessageAugmentation(_), Self::MessageAugmentation(_))
                | (Self::ProofOfPossession(_), Self::ProofOfPossession(_))
        )
    }

    /// Extract the inner raw representation
    pub fn as_raw_value(&self) -> &<C as Pairing>::SignatureShare {
        match self {
            Self::Basic(s) => s,
            Self::MessageAugmentation(s) => s,
            Self::ProofOfPossession(s) => s,
        }
    }
}
