use crate::*;

/// A public key share is a point on the curve
/// Must be combined with other public key shares
/// in order to decrypt a ciphertext
#[derive(PartialEq, Eq, Serialize, Deserialize)]
pub struct ElGamalDecryptionShare<C: BlsSignatureImpl>(
    #[serde(serialize_with = "traits::public_key_share::serialize::<C, _>")]
    #[serde(deserialize_with = "traits::public_key_share::deserialize::<C, _>")]
    pub <C as Pairing>::PublicKeyShare,
);

impl<C: BlsSignatureImpl> Clone for ElGamalDecryptionShare<C> {
    fn clone(&self) -> Self {
        Self(self.0)
    }
}

impl<C: BlsSignatureImpl> core::fmt::Debug for ElGamalDecryptionShare<C> {
    fn fmt(&self, f: &mut core::fmt::Formatter<'_>) -> core::fmt::Result {
        write!(f, "{:?}", self.0)
    }
}

impl<C: BlsSignatureImpl> ElGamalDecryptionShare<C> {}

impl<C: BlsSignatureImpl> From<&ElGamalDecryptionShare<C>> for Vec<u8> {
    fn from(value: &ElGamalDecryptionShare<C>) -> Self {
        serde_bare::to_vec(value).expect("failed to serialize ElGamalDecryptionShare")
    }
}

impl<C: BlsSignatureImpl> TryFrom<&[u8]> for ElGamalDecryptionShare<C> {
    type Error = BlsError;

    fn try_from(value: &[u8]) -> Result<Self, Self::Error> {
        let share = serde_bare::from_slice(value)?;
        Ok(share)
    }
}

impl_from_derivatives_generic!(ElGamalDecryptionShare);

/// An ElGamal decryption key where the secret key is hidden or combined from shares
/// that can decrypt ciphertext
#[derive(Default, PartialEq, Eq, Serialize, Deserialize)]
pub struct ElGamalDecryptionKey<C: BlsSignatureImpl>(
    #[serde(serialize_with = "traits::public_key::serialize::<C, _>")]
    #[serde(deserialize_with = "traits::public_key::deserialize::<C, _>")]
    pub <C as Pairing>::PublicKey,
);

impl<C: BlsSignatureImpl> Clone for ElGamalDecryptionKey<C> {
    fn clone(&self) -> Self {
        Self(self.0)
    }
}

impl<C: BlsSignatureImpl> From<&ElGamalDecryptionKey<C>> for Vec<u8> {
    fn from(value: &ElGamalDecryptionKey<C>) -> Self {
        serde_bare::to_vec(value).expect("failed to serialize ElGamalDecryptionKey")
    }
}

impl<C: BlsSignatureImpl> TryFrom<&[u8]> for ElGamalDecryptionKey<C> {
    type Error = BlsError;

    fn try_from(value: &[u8]) -> Result<Self, Self::Error> {
        let key = serde_bare::from_slice(value)?;
        Ok(key)
    }
}

impl_from_derivatives_generic!(ElGamalDecryptionKey);

impl<C: BlsSignatureImpl> ElGamalDecryptionKey<C> {
    /// Decrypt signcrypt ciphertext
    pub fn decrypt(&self, ciphertext: &ElGamalCiphertext<C>) -> <C as Pairing>::PublicKey {
        ciphertext.c2 - self.0
    }

    /// Combine decryption shares into a signcrypt decryption key
    pub fn from_shares(shares: &[ElGamalDecryptionShare<C>]) -> BlsResult<Self> {
        let points = shares
            .iter()
            .map(|s| s.0)
            .collect::<Vec<<C as Pairing>::PublicKeyShare>>();
        <C as BlsSignatureCore>::core_combine_public_key_shares(&points).map(Self)
    }
}
