use crate::impls::inner_types::*;
use crate::*;

/// A Discrete Log Proof tied to a specific ElGamal ciphertext
#[derive(Default, PartialEq, Eq, Serialize, Deserialize)]
pub struct ElGamalProof<C: BlsSignatureImpl> {
    /// The el-gamal ciphertext
    #[serde(bound(
        serialize = "ElGamalCiphertext<C>: Serialize",
        deserialize = "ElGamalCiphertext<C>: Deserialize<'de>"
    ))]
    pub ciphertext: ElGamalCiphertext<C>,
    /// The proof of encrypted message
    #[serde(serialize_with = "traits::scalar::serialize::<C, _>")]
    #[serde(deserialize_with = "traits::scalar::deserialize::<C, _>")]
    pub message_proof: <<C as Pairing>::PublicKey as Group>::Scalar,
    /// The proof of the blinder
    #[serde(serialize_with = "traits::scalar::serialize::<C, _>")]
    #[serde(deserialize_with = "traits::scalar::deserialize::<C, _>")]
    pub blinder_proof: <<C as Pairing>::PublicKey as Group>::Scalar,
    /// The fiat-shamir heuristic challenge
    #[serde(serialize_with = "traits::scalar::serialize::<C, _>")]
    #[serde(deserialize_with = "traits::scalar::deserialize::<C, _>")]
    pub challenge: <<C as Pairing>::PublicKey as Group>::Scalar,
}

impl<C: BlsSignatureImpl> core::fmt::Display for ElGamalProof<C> {
    fn fmt(&self, f: &mut core::fmt::Formatter) -> core::fmt::Result {
        write!(
            f,
            "{{ciphertext: {}, message_proof: {:?}, blinder_proof: {:?}, challenge: {:?}}}",
            self.ciphertext, self.message_proof, self.blinder_proof, self.challenge
        )
    }
}

impl<C: BlsSignatureImpl> core::fmt::Debug for ElGamalProof<C> {
    fn fmt(&self, f: &mut core::fmt::Formatter) -> core::fmt::Result {
        write!(
            f,
            "{{ciphertext: {:?}, message_proof: {:?}, blinder_proof: {:?}, challenge: {:?}}}",
            self.ciphertext, self.message_proof, self.blinder_proof, self.challenge
        )
    }
}

impl<C: BlsSignatureImpl> Copy for ElGamalProof<C> {}

impl<C: BlsSignatureImpl> Clone for ElGamalProof<C> {
    fn clone(&self) -> Self {
        *self
    }
}

impl<C: BlsSignatureImpl> From<&ElGamalProof<C>> for Vec<u8> {
    fn from(value: &ElGamalProof<C>) -> Self {
        serde_bare::to_vec(value).expect("Failed to serialize ElGamalProof")
    }
}

impl<C: BlsSignatureImpl> TryFrom<&[u8]> for ElGamalProof<C> {
    type Error = BlsError;

    fn try_from(value: &[u8]) -> BlsResult<Self> {
        let proof = serde_bare::from_slice(value)?;
        Ok(proof)
    }
}

impl_from_derivatives_generic!(ElGamalProof);

impl<C: BlsSignatureImpl> ElGamalProof<C> {
    /// Verify the proof and ciphertext are valid
    pub fn verify(&self, pk: PublicKey<C>) -> BlsResult<()> {
        <C as BlsElGamal>::verify_proof(
            pk.0,
            None,
            self.ciphertext.c1,
            self.ciphertext.c2,
            self.message_proof,
            self.blinder_proof,
            self.challenge,
        )
    }

    /// Verify the proof and ciphertext then decrypt
    pub fn verify_and_decrypt(&self, sk: &SecretKey<C>) -> BlsResult<<C as Pairing>::PublicKey> {
        <C as BlsElGamal>::verify_and_decrypt(
            sk.0,
            None,
            self.ciphertext.c1,
            self.ciphertext.c2,
            self.message_proof,
            self.blinder_proof,
            self.challenge,
        )
    }
}
