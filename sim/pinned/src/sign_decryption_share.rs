use crate::*;

/// A public key share is point on the curve. See Section 4.3 in
/// <https://eprint.iacr.org/2016/663.pdf>
/// Must be combined with other public key shares
/// to produce the completed key, or used for
/// creating partial signatures which can be
/// combined into a complete signature
#[derive(PartialEq, Eq, Serialize, Deserialize)]
pub struct SignDecryptionShare<C: BlsSignatureImpl>(pub <C as Pairing>::PublicKeyShare);

impl<C: BlsSignatureImpl> Clone for SignDecryptionShare<C> {
    fn clone(&self) -> Self {
        Self(self.0)
    }
}

impl<C: BlsSignatureImpl> core::fmt::Debug for SignDecryptionShare<C> {
    fn fmt(&self, f: &mut core::fmt::Formatter<'_>) -> core::fmt::Result {
        write!(f, "{:?}", self.0)
    }
}

impl<C: BlsSignatureImpl> From<&SignDecryptionShare<C>> for Vec<u8> {
    fn from(share: &SignDecryptionShare<C>) -> Vec<u8> {
        serde_bare::to_vec(&share.0).unwrap()
    }
}

impl<C: BlsSignatureImpl> TryFrom<&[u8]> for SignDecryptionShare<C> {
    type Error = BlsError;
    fn try_from(bytes: &[u8]) -> BlsResult<Self> {
        serde_bare::from_slice(bytes)
            .map(Self)
            .map_err(|_| BlsError::InvalidInputs("invalid byte sequence".to_string()))
    }
}

impl_from_derivatives_generic!(SignDecryptionShare);

impl<C: BlsSignatureImpl> SignDecryptionShare<C> {
    /// Verify the signcrypt decryption share with the corresponding public key and ciphertext
    pub fn verify(&self, pks: &PublicKeyShare<C>, sig: &SignCryptCiphertext<C>) -> BlsResult<()> {
        let share = self.0.as_group_element::<<C as Pairing>::PublicKey>()?;
        let pk = pks.0.as_group_element::<<C as Pairing>::PublicKey>()?;
        if <C as BlsSignCrypt>::verify_share(
            share,
            pk,
            sig.u,
            &sig.v,
            sig.w,
            <C as BlsSignatureBasic>::DST,
        )
        .into()
        {
            Ok(())
        } else {
            Err(BlsError::InvalidDecryptionShare)
        }
    }
}
