use crate::helpers::{get_crypto_rng, KEYGEN_SALT};
use crate::impls::inner_types::*;
use crate::*;
use core::fmt::{self, Formatter};
use rand::Rng;
use rand_core::{CryptoRng, RngCore};
use serde::de::{SeqAccess, Visitor};
use subtle::CtOption;
use vsss_rs::{combine_shares, shamir};

/// Number of bytes needed to represent the secret key
pub const SECRET_KEY_BYTES: usize = 32;

/// A BLS secret key implementation that doesn't expose the underlying curve
/// and signature scheme and can be used in situations where the specific
/// implementation is not known at compile time and where trait objects
/// are desirable but can't be used due to the lack of `Sized` trait.
/// The downside is the type is now indicated with a byte or string
/// for serialization and deserialization. If this is not desirable,
/// then use [`SecretKey<C>`](struct.SecretKey.html) instead.
#[derive(Clone, Debug, Eq, PartialEq)]
pub enum SecretKeyEnum {
    /// A secret key for signatures in G1 and public keys in G2
    G1(SecretKey<Bls12381G1Impl>),
    /// A secret key for signatures in G2 and public keys in G1
    G2(SecretKey<Bls12381G2Impl>),
}

impl Serialize for SecretKeyEnum {
    fn serialize<S: Serializer>(&self, s: S) -> Result<S::Ok, S::Error> {
        match self {
            SecretKeyEnum::G1(sk) => (Bls12381::G1, sk).serialize(s),
            SecretKeyEnum::G2(sk) => (Bls12381::G2, sk).serialize(s),
        }
    }
}

impl<'de> Deserialize<'de> for SecretKeyEnum {
    fn deserialize<D: Deserializer<'de>>(d: D) -> Result<Self, D::Error> {
        struct SecretKeyEnumVisitor;

        impl<'de> Visitor<'de> for SecretKeyEnumVisitor {
            type Value = SecretKeyEnum;

            fn expecting(&self, f: &mut Formatter<'_>) -> fmt::Result {
                write!(f, "a tuple of the type and secret key")
            }

            fn visit_seq<A>(self, mut seq: A) -> Result<Self::Value, A::Error>
            where
                A: SeqAccess<'de>,
            {
                let ee = seq
                    .next_element::<Bls12381>()?
                    .ok_or_else(|| serde::de::Error::invalid_length(0, &self))?;
                match ee {
                    Bls12381::G1 => {
                        let sk = seq
                            .next_element::<SecretKey<Bls12381G1Impl>>()?
                            .ok_or_else(|| serde::de::Error::invalid_length(1, &self))?;
                        Ok(SecretKeyEnum::G1(sk))
                    }
                    Bls12381::G2 => {
                        let sk = seq
                            .next_element::<SecretKey<Bls12381G2Impl>>()?
                            .ok_or_else(|| serde::de::Error::invalid_length(1, &self))?;
                        Ok(SecretKeyEnum::G2(sk))
                    }
                }
            }
        }
        d.deserialize_tuple(2, SecretKeyEnumVisitor)
    }
}

impl Default for SecretKeyEnum {
    fn default() -> Self {
        Self::G1(SecretKey(Scalar::default()))
    }
}

impl From<&SecretKeyEnum> for Vec<u8> {
    fn from(value: &SecretKeyEnum) -> Self {
        let (tt, mut output) = match value {
            SecretKeyEnum::G1(sk) => (Bls12381::G1, Vec::from(sk)),
            SecretKeyEnum::G2(sk) => (Bls12381::G2, Vec::from(sk)),
        };
        output.insert(0, tt as u8);
        output
    }
}

impl TryFrom<&[u8]> for SecretKeyEnum {
    type Error = BlsError;

    fn try_from(value: &[u8]) -> Result<Self, Self::Error> {
        let ee = Bls12381::try_from(value[0])?;
        match ee {
            Bls12381::G1 => {
                let sk = SecretKey::<Bls12381G1Impl>::try_from(&value[1..])?;
                Ok(SecretKeyEnum::G1(sk))
            }
            Bls12381::G2 => {
                let sk = SecretKey::<Bls12381G2Impl>::try_from(&value[1..])?;
                Ok(SecretKeyEnum::G2(sk))
            }
        }
    }
}

impl_from_derivatives!(SecretKeyEnum);

impl SecretKeyEnum {
    /// Create a new random secret key
    pub fn new(t: Bls12381) -> Self {
        match t {
            Bls12381::G1 => SecretKeyEnum::G1(SecretKey::new()),
            Bls12381::G2 => SecretKeyEnum::G2(SecretKey::new()),
        }
    }

    /// Compute a secret key from a hash
    pub fn from_hash<B: AsRef<[u8]>>(t: Bls12381, data: B) -> Self {
        match t {
            Bls12381::G1 => SecretKeyEnum::G1(SecretKey::from_hash(data)),
            Bls12381::G2 => SecretKeyEnum::G2(SecretKey::from_hash(data)),
        }
    }

    /// Compute a secret key from a CS-PRNG
    pub fn random(t: Bls12381, rng: impl RngCore + CryptoRng) -> Self {
        match t {
            Bls12381::G1 => SecretKeyEnum::G1(SecretKey::random(rng)),
            Bls12381::G2 => SecretKeyEnum::G2(SecretKey::random(rng)),
        }
    }

    /// Get the big-endian byte representation of this key
    pub fn to_be_bytes(&self) -> Vec<u8> {
        let (t, mut output) = match self {
            SecretKeyEnum::G1(sk) => (Bls12381::G1, Vec::from(sk.to_be_bytes())),
            SecretKeyEnum::G2(sk) => (Bls12381::G2, Vec::from(sk.to_be_bytes())),
        };
        output.insert(0, t as u8);
        output
    }

    /// Get the little-endian byte representation of this key
    pub fn to_le_bytes(&self) -> Vec<u8> {
        let (t, mut output) = match self {
            SecretKeyEnum::G1(sk) => (Bls12381::G1, Vec::from(sk.to_le_bytes())),
            SecretKeyEnum::G2(sk) => (Bls12381::G2, Vec::from(sk.to_le_bytes())),
        };
        output.insert(0, t as u8);
        output
    }

    /// Convert a big-endian representation of the secret key.
    pub fn from_be_bytes(bytes: &[u8]) -> CtOption<Self> {
        let t = match Bls12381::try_from(bytes[0]) {
            Ok(t) => t,
            Err(_) => return CtOption::new(Self::default(), Choice::from(0u8)),
        };
        match (&bytes[1..]).try_into() {
            Ok(sk) => match t {
                Bls12381::G1 => {
                    let ct_sk = SecretKey::from_be_bytes(&sk);
                    let choice = ct_sk.is_some();
                    let val = if choice.into() {
                        SecretKeyEnum::G1(ct_sk.unwrap())
                    } else {
                        Self::default()
                    };
                    CtOption::new(val, choice)
                }
                Bls12381::G2 => {
                    let ct_sk = SecretKey::from_be_bytes(&sk);
                    let choice = ct_sk.is_some();
                    let val = if choice.into() {
                        SecretKeyEnum::G2(ct_sk.unwrap())
                    } else {
                        Self::default()
                    };
                    CtOption::new(val, choice)
                }
            },
            Err(_) => CtOption::new(Self::default(), Choice::from(0u8)),
        }
    }

    /// Convert a little-endian representation of the secret key.
    pub fn from_le_bytes(bytes: &[u8]) -> CtOption<Self> {
        let t = match Bls12381::try_from(bytes[0]) {
            Ok(t) => t,
            Err(_) => return CtOption::new(Self::default(), Choice::from(0u8)),
        };
        match (&bytes[1..]).try_into() {
            Ok(sk) => match t {
                Bls12381::G1 => {
                    let ct_sk = SecretKey::from_le_bytes(&sk);
                    let choice = ct_sk.is_some();
                    let val = if choice.into() {
                        SecretKeyEnum::G1(ct_sk.unwrap())
                    } else {
                        Self::default()
                    };
                    CtOption::new(val, choice)
                }
                Bls12381::G2 => {
                    let ct_sk = SecretKey::from_le_bytes(&sk);
                    let choice = ct_sk.is_some();
                    let val = if choice.into() {
                        SecretKeyEnum::G2(ct_sk.unwrap())
                    } else {
                        Self::default()
                    };
                    CtOption::new(val, choice)
                }
            },
            Err(_) => CtOption::new(Self::default(), Choice::from(0u8)),
        }
    }
}

/// The secret key is field element 0 < `x` < `r`
/// where `r` is the curve order. See Section 4.3 in
/// <https://eprint.iacr.org/2016/663.pdf>
#[derive(Clone, Debug, Default, Eq, PartialEq, Serialize, Deserialize)]
pub struct SecretKey<C: BlsSignatureImpl>(
    /// The secret key raw value
    #[serde(serialize_with = "traits::scalar::serialize::<C, _>")]
    #[serde(deserialize_with = "traits::scalar::deserialize::<C, _>")]
    pub <<C as Pairing>::PublicKey as Group>::Scalar,
);

impl<C: BlsSignatureImpl> From<SecretKey<C>> for [u8; SECRET_KEY_BYTES] {
    fn from(sk: SecretKey<C>) -> [u8; SECRET_KEY_BYTES] {
        sk.to_be_bytes()
    }
}

impl<'a, C: BlsSignatureImpl> From<&'a SecretKey<C>> for [u8; SECRET_KEY_BYTES] {
    fn from(sk: &'a SecretKey<C>) -> [u8; SECRET_KEY_BYTES] {
        sk.to_be_bytes()
    }
}

impl_from_derivatives_generic!(SecretKey);

impl<C: BlsSignatureImpl> From<&SecretKey<C>> for Vec<u8> {
    fn from(value: &SecretKey<C>) -> Self {
        value.to_be_bytes().to_vec()
    }
}

impl<C: BlsSignatureImpl> TryFrom<&[u8]> for SecretKey<C> {
    type Error = BlsError;

    fn try_from(value: &[u8]) -> Result<Self, Self::Error> {
        let bytes = <[u8; 32]>::try_from(value)
            .map_err(|_| BlsError::InvalidInputs("Invalid secret key bytes".to_string()))?;
        Option::from(Self::from_be_bytes(&bytes))
            .ok_or_else(|| BlsError::InvalidInputs("Invalid secret key bytes".to_string()))
    }
}

impl<C: BlsSignatureImpl> SecretKey<C> {
    /// Create a new random secret key
    pub fn new() -> Self {
        Self::random(get_crypto_rng())
    }

    /// Compute a secret key from a hash
    pub fn from_hash<B: AsRef<[u8]>>(data: B) -> Self {
        Self(<C as HashToScalar>::hash_to_scalar(
            data.as_ref(),
            KEYGEN_SALT,
        ))
    }

    /// Compute a secret key from a CS-PRNG
    pub fn random(mut rng: impl RngCore + CryptoRng) -> Self {
        Self(<C as HashToScalar>::hash_to_scalar(
            rng.gen::<[u8; SECRET_KEY_BYTES]>(),
            KEYGEN_SALT,
        ))
    }

    /// Get the big-endian byte representation of this key
    pub fn to_be_bytes(&self) -> [u8; SECRET_KEY_BYTES] {
        scalar_to_be_bytes::<C, SECRET_KEY_BYTES>(self.0)
    }

    /// Get the little-endian byte representation of this key
    pub fn to_le_bytes(&self) -> [u8; SECRET_KEY_BYTES] {
        scalar_to_le_bytes::<C, SECRET_KEY_BYTES>(self.0)
    }

    /// Convert a big-endian representation of the secret key.
    pub fn from_be_bytes(bytes: &[u8; SECRET_KEY_BYTES]) -> CtOption<Self> {
        scalar_from_be_bytes::<C, SECRET_KEY_BYTES>(bytes).map(Self)
    }

    /// Convert a little-endian representation of the secret key.
    pub fn from_le_bytes(bytes: &[u8; SECRET_KEY_BYTES]) -> CtOption<Self> {
        scalar_from_le_bytes::<C, SECRET_KEY_BYTES>(bytes).map(Self)
    }

    /// Secret share this key by creating `limit` shares where `threshold` are required
    /// to combine back into this secret
    pub fn split(&self, threshold: usize, limit: usize) -> BlsResult<Vec<SecretKeyShare<C>>> {
        self.split_with_rng(threshold, limit, get_crypto_rng())
    }

    /// Secret share this key by creating `limit` shares where `threshold` are required
    /// to combine back into this secret using a specified RNG
    pub fn split_with_rng(
        &self,
        threshold: usize,
        limit: usize,
        rng: impl RngCore + CryptoRng,
    ) -> BlsResult<Vec<SecretKeyShare<C>>> {
        let shares = shamir::split_secret(threshold, limit, self.0, rng)?
            .into_iter()
            .map(SecretKeyShare)
            .collect::<Vec<_>>();
        Ok(shares)
    }

    /// Reconstruct a secret from shares created from `split`
    pub fn combine(shares: &[SecretKeyShare<C>]) -> BlsResult<Self> {
        let ss = shares.iter().map(|s| s.0.clone()).collect::<Vec<_>>();
        let secret = combine_shares(&ss)?;
        Ok(Self(secret))
    }

    /// Compute the public key
    pub fn public_key(&self) -> PublicKey<C> {
        PublicKey(<C as BlsSignatureCore>::public_key(&self.0))
    }

    /// Create a proof of possession
    pub fn proof_of_possession(&self) -> BlsResult<ProofOfPossession<C>> {
        Ok(ProofOfPossession(<C as BlsSignaturePop>::pop_prove(
            &self.0,
        )?))
    }

    /// Sign a message with this secret key using the specified scheme
    pub fn sign(&self, scheme: SignatureSchemes, msg: &[u8]) -> BlsResult<Signature<C>> {
        match scheme {
            SignatureSchemes::Basic => {
                let inner = <C as BlsSignatureBasic>::sign(&self.0, msg)?;
                Ok(Signature::Basic(inner))
            }
            SignatureSchemes::MessageAugmentation => {
                let inner = <C as BlsSignatureMessageAugmentation>::sign(&self.0, msg)?;
                Ok(Signature::MessageAugmentation(inner))
            }
            SignatureSchemes::ProofOfPossession => {
                let inner = <C as BlsSignaturePop>::sign(&self.0, msg)?;
                Ok(Signature::ProofOfPossession(inner))
            }
        }
    }

    /// Create a Signcrypt decryption key where the secret key is hidden
    /// that can decrypt ciphertext
    pub fn sign_decryption_key<B: AsRef<[u8]>>(
        &self,
        ciphertext: &SignCryptCiphertext<C>,
    ) -> SignCryptDecryptionKey<C> {
        SignCryptDecryptionKey(ciphertext.u * self.0)
    }
}
