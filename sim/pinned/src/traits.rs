//! Implement the various function used by BLS signatures
//! These traits are not meant for direct use since consumers
//! can use the structs in `impls`.

mod elgamal;
mod hash_to_point;
mod hash_to_scalar;
mod pairings;
mod pk_multi;
mod serdes;
mod sig_aug;
mod sig_basic;
mod sig_core;
mod sig_multi;
mod sig_pop;
mod sig_proof;
mod sign_crypt;
mod time_crypt;

pub use elgamal::*;
pub use hash_to_point::*;
pub use hash_to_scalar::*;
pub use pairings::*;
pub use pk_multi::*;
pub use serdes::*;
pub use sig_aug::*;
pub use sig_basic::*;
pub use sig_core::*;
pub use sig_multi::*;
pub use sig_pop::*;
pub use sig_proof::*;
pub use sign_crypt::*;
pub use time_crypt::*;
