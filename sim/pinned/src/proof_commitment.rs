use crate::impls::inner_types::*;
use crate::*;
use rand::Rng;
use rand_core::{CryptoRng, RngCore};
use subtle::CtOption;

/// The commitment portion of the signature proof of knowledge
#[derive(PartialEq, Eq, serde::Serialize, serde::Deserialize)]
pub enum ProofCommitment<C: BlsSignatureImpl> {
    /// The basic signature scheme
    Basic(
        /// The commitment
        #[serde(serialize_with = "traits::signature::serialize::<C, _>")]
        #[serde(deserialize_with = "traits::signature::deserialize::<C, _>")]
        <C as Pairing>::Signature,
    ),
    /// The message augmentation signature scheme
    MessageAugmentation(
        /// The commitment
        #[serde(serialize_with = "traits::signature::serialize::<C, _>")]
        #[serde(deserialize_with = "traits::signature::deserialize::<C, _>")]
        <C as Pairing>::Signature,
    ),
    /// The proof of possession signature scheme
    ProofOfPossession(
        /// The commitment
        #[serde(serialize_with = "traits::signature::serialize::<C, _>")]
        #[serde(deserialize_with = "traits::signature::deserialize::<C, _>")]
        <C as Pairing>::Signature,
    ),
}

impl<C: BlsSignatureImpl> Default for ProofCommitment<C> {
    fn default() -> Self {
        Self::ProofOfPossession(<C as Pairing>::Signature::default())
    }
}

impl<C: BlsSignatureImpl> core::fmt::Display for ProofCommitment<C> {
    fn fmt(&self, f: &mut core::fmt::Formatter) -> core::fmt::Result {
        match self {
            Self::Basic(s) => write!(f, "Basic({})", s),
            Self::MessageAugmentation(s) => write!(f, "MessageAugmentation({})", s),
            Self::ProofOfPossession(s) => write!(f, "ProofOfPossession({})", s),
        }
    }
}

impl<C: BlsSignatureImpl> core::fmt::Debug for ProofCommitment<C> {
    fn fmt(&self, f: &mut core::fmt::Formatter) -> core::fmt::Result {
        match self {
            Self::Basic(s) => write!(f, "Basic({:?})", s),
            Self::MessageAugmentation(s) => write!(f, "MessageAugmentation({:?})", s),
            Self::ProofOfPossession(s) => write!(f, "ProofOfPossession({:?})", s),
        }
    }
}

impl<C: BlsSignatureImpl> Copy for ProofCommitment<C> {}

impl<C: BlsSignatureImpl> Clone for ProofCommitment<C> {
    fn clone(&self) -> Self {
        *self
    }
}

impl<C: BlsSignatureImpl> subtle::ConditionallySelectable for ProofCommitment<C> {
    fn conditional_select(a: &Self, b: &Self, choice: Choice) -> Self {
        match (a, b) {
            (Self::Basic(a), Self::Basic(b)) => {
                Self::Basic(<C as Pairing>::Signature::conditional_select(a, b, choice))
            }
            (Self::MessageAugmentation(a), Self::MessageAugmentation(b)) => {
                Self::MessageAugmentation(<C as Pairing>::Signature::conditional_select(
                    a, b, choice,
                ))
            }
            (Self::ProofOfPossession(a), Self::ProofOfPossession(b)) => {
                Self::ProofOfPossession(<C as Pairing>::Signature::conditional_select(a, b, choice))
            }
            _ => panic!("Cannot conditional select between different proof commitments"),
        }
    }
}

impl_from_derivatives_generic!(ProofCommitment);

impl<C: BlsSignatureImpl> From<&ProofCommitment<C>> for Vec<u8> {
    fn from(value: &ProofCommitment<C>) -> Self {
        serde_bare::to_vec(value).unwrap()
    }
}

impl<C: BlsSignatureImpl> TryFrom<&[u8]> for ProofCommitment<C> {
    type Error = BlsError;

    fn try_from(value: &[u8]) -> Result<Self, Self::Error> {
        let len = C::Signature::default().to_bytes().as_ref().len() + 1;
        if value.len() != len {
            return Err(BlsError::InvalidInputs(format!(
                "Invalid length, expected {}, got {}",
                len,
                value.len()
            )));
        }
        serde_bare::from_slice(value).map_err(|e| BlsError::InvalidInputs(e.to_string()))
    }
}

impl<C: BlsSignatureImpl> ProofCommitment<C> {
    /// Generate a new proof of knowledge commitment
    /// This is step 1 in the 3 step process
    pub fn generate<B: AsRef<[u8]>>(
        msg: B,
        signature: Signature<C>,
    ) -> BlsResult<(Self, ProofCommitmentSecret<C>)> {
        match signature {
            Signature::Basic(_) => {
                let (u, x) = <C as BlsSignatureProof>::generate_commitment(
                    msg,
                    <C as BlsSignatureBasic>::DST,
                )?;
                Ok((Self::Basic(u), ProofCommitmentSecret(x)))
            }
            Signature::MessageAugmentation(_) => {
                let (u, x) = <C as BlsSignatureProof>::generate_commitment(
                    msg,
                    <C as BlsSignatureMessageAugmentation>::DST,
                )?;
                Ok((Self::MessageAugmentation(u), ProofCommitmentSecret(x)))
            }
            Signature::ProofOfPossession(_) => {
                let (u, x) = <C as BlsSignatureProof>::generate_commitment(
                    msg,
                    <C as BlsSignaturePop>::SIG_DST,
                )?;
                Ok((Self::ProofOfPossession(u), ProofCommitmentSecret(x)))
            }
        }
    }

    /// Finish the commitment value by converting it into a proof of knowledge
    /// Step 3 in the 3 step process
    pub fn finalize(
        self,
        x: ProofCommitmentSecret<C>,
        y: ProofCommitmentChallenge<C>,
        sig: Signature<C>,
    ) -> BlsResult<ProofOfKnowledge<C>> {
        match (self, sig) {
            (Self::Basic(u), Signature::Basic(s)) => {
                let (u, v) = <C as BlsSignatureProof>::generate_proof(u, x.0, y.0, s)?;
                Ok(ProofOfKnowledge::Basic { u, v })
            }
            (Self::MessageAugmentation(u), Signature::MessageAugmentation(s)) => {
                let (u, v) = <C as BlsSignatureProof>::generate_proof(u, x.0, y.0, s)?;
                Ok(ProofOfKnowledge::MessageAugmentation { u, v })
            }
            (Self::ProofOfPossession(u), Signature::ProofOfPossession(s)) => {
                let (u, v) = <C as BlsSignatureProof>::generate_proof(u, x.0, y.0, s)?;
                Ok(ProofOfKnowledge::ProofOfPossession { u, v })
            }
            (_, _) => Err(BlsError::InvalidProof),
        }
    }
}

/// A commitment secret used to create the proof of knowledge
#[derive(Copy, Clone, Debug, Default, Eq, PartialEq, Deserialize, Serialize)]
pub struct ProofCommitmentSecret<C: BlsSignatureImpl>(
    /// The commitment secret raw value
    #[serde(serialize_with = "traits::scalar::serialize::<C, _>")]
    #[serde(deserialize_with = "traits::scalar::deserialize::<C, _>")]
    pub <<C as Pairing>::PublicKey as Group>::Scalar,
);

impl_from_derivatives_generic!(ProofCommitmentSecret);

impl<C: BlsSignatureImpl> From<&ProofCommitmentSecret<C>> for Vec<u8> {
    fn from(value: &ProofCommitmentSecret<C>) -> Self {
        scalar_to_be_bytes::<C, SECRET_KEY_BYTES>(value.0).to_vec()
    }
}

impl<C: BlsSignatureImpl> TryFrom<&[u8]> for ProofCommitmentSecret<C> {
    type Error = BlsError;

    fn try_from(value: &[u8]) -> Result<Self, Self::Error> {
        let bytes = <[u8; 32]>::try_from(value)
            .map_err(|_| BlsError::InvalidInputs("Invalid secret key bytes".to_string()))?;
        let value = scalar_from_be_bytes::<C, SECRET_KEY_BYTES>(&bytes).map(Self);
        Option::from(value)
            .ok_or_else(|| BlsError::InvalidInputs("Invalid secret key bytes".to_string()))
    }
}

impl<C: BlsSignatureImpl> ProofCommitmentSecret<C> {
    /// Get the big-endian byte representation of this key
    pub fn to_be_bytes(&self) -> [u8; SECRET_KEY_BYTES] {
        scalar_to_be_bytes::<C, SECRET_KEY_BYTES>(self.0)
    }

    /// Get the little-endian byte representation of this key
    pub fn to_le_bytes(&self) -> [u8; SECRET_KEY_BYTES] {
        scalar_to_le_bytes::<C, SECRET_KEY_BYTES>(self.0)
    }

    /// Convert a big-endian representation of the secret key.
    pub fn from_be_bytes(bytes: &[u8; SECRET_KEY_BYTES]) -> CtOption<Self> {
        scalar_from_be_bytes::<C, SECRET_KEY_BYTES>(bytes).map(Self)
    }

    /// Convert a little-endian representation of the secret key.
    pub fn from_le_bytes(bytes: &[u8; SECRET_KEY_BYTES]) -> CtOption<Self> {
        scalar_from_le_bytes::<C, SECRET_KEY_BYTES>(bytes).map(Self)
    }
}

/// The proof of knowledge challenge value generated by the server in
/// step 2 of the proof generation process
#[derive(Copy, Clone, Debug, Default, Eq, PartialEq, Deserialize, Serialize)]
pub struct ProofCommitmentChallenge<C: BlsSignatureImpl>(
    /// The commitment challenge raw value
    #[serde(serialize_with = "traits::scalar::serialize::<C, _>")]
    #[serde(deserialize_with = "traits::scalar::deserialize::<C, _>")]
    pub <<C as Pairing>::PublicKey as Group>::Scalar,
);

impl_from_derivatives_generic!(ProofCommitmentChallenge);

impl<C: BlsSignatureImpl> From<&ProofCommitmentChallenge<C>> for Vec<u8> {
    fn from(value: &ProofCommitmentChallenge<C>) -> Self {
        scalar_to_be_bytes::<C, SECRET_KEY_BYTES>(value.0).to_vec()
    }
}

impl<C: BlsSignatureImpl> TryFrom<&[u8]> for ProofCommitmentChallenge<C> {
    type Error = BlsError;

    fn try_from(value: &[u8]) -> Result<Self, Self::Error> {
        let bytes = <[u8; 32]>::try_from(value)
            .map_err(|_| BlsError::InvalidInputs("Invalid secret key bytes".to_string()))?;
        let value = scalar_from_be_bytes::<C, SECRET_KEY_BYTES>(&bytes).map(Self);
        Option::from(value)
            .ok_or_else(|| BlsError::InvalidInputs("Invalid secret key bytes".to_string()))
    }
}

impl<C: BlsSignatureImpl> ProofCommitmentChallenge<C> {
    /// Create a new random secret key
    pub fn new() -> Self {
        Self::random(get_crypto_rng())
    }

    /// Compute a secret key from a hash
    pub fn from_hash<B: AsRef<[u8]>>(data: B) -> Self {
        Self(<C as HashToScalar>::hash_to_scalar(
            data.as_ref(),
            KEYGEN_SALT,
        ))
    }

    /// Compute a random challenge from a CS-PRNG
    pub fn random(mut rng: impl RngCore + CryptoRng) -> Self {
        Self(<C as HashToScalar>::hash_to_scalar(
            rng.gen::<[u8; SECRET_KEY_BYTES]>(),
            KEYGEN_SALT,
        ))
    }

    /// Get the big-endian byte representation of this key
    pub fn to_be_bytes(&self) -> [u8; SECRET_KEY_BYTES] {
        scalar_to_be_bytes::<C, SECRET_KEY_BYTES>(self.0)
    }

    /// Get the little-endian byte representation of this key
    pub fn to_le_bytes(&self) -> [u8; SECRET_KEY_BYTES] {
        scalar_to_le_bytes::<C, SECRET_KEY_BYTES>(self.0)
    }

    /// Convert a big-endian representation of the secret key.
    pub fn from_be_bytes(bytes: &[u8; SECRET_KEY_BYTES]) -> CtOption<Self> {
        scalar_from_be_bytes::<C, SECRET_KEY_BYTES>(bytes).map(Self)
    }

    /// Convert a little-endian representation of the secret key.
    pub fn from_le_bytes(bytes: &[u8; SECRET_KEY_BYTES]) -> CtOption<Self> {
        scalar_from_le_bytes::<C, SECRET_KEY_BYTES>(bytes).map(Self)
    }
}
