//! The implementations of the BLS signature scheme
//! and all supporting types and algorithms

mod g1;
mod g2;

pub use g1::*;
pub use g2::*;

use crate::*;
use core::{
    fmt::{self, Display, Formatter},
    marker::PhantomData,
    str::FromStr,
};
use rand::Rng;
use rand_core::{CryptoRng, RngCore};

/// Types that implement BLS signatures
pub trait BlsSignatureImpl:
    BlsSignatureBasic + BlsSignatureMessageAugmentation + BlsSignaturePop
{
}

/// A BLS signature implementation
#[derive(Copy, Clone, Debug, Eq, PartialEq, Ord, PartialOrd, Hash, Serialize, Deserialize)]
pub struct BlsSignature<T: BlsSignatureImpl>(PhantomData<T>);

impl Default for BlsSignature<Bls12381G1Impl> {
    fn default() -> Self {
        BlsSignature(PhantomData)
    }
}

impl<T: BlsSignatureImpl> BlsSignature<T> {
    /// Create a new BLS signature implementation
    pub fn new() -> Self {
        BlsSignature(PhantomData)
    }

    /// Create a new random secret key
    pub fn new_secret_key() -> SecretKey<T> {
        SecretKey::random(get_crypto_rng())
    }

    /// Compute a secret key from a hash
    pub fn secret_key_from_hash<B: AsRef<[u8]>>(data: B) -> SecretKey<T> {
        SecretKey(<T as HashToScalar>::hash_to_scalar(
            data.as_ref(),
            KEYGEN_SALT,
        ))
    }

    /// Compute a secret key from a CS-PRNG
    pub fn random_secret_key(mut rng: impl RngCore + CryptoRng) -> SecretKey<T> {
        SecretKey(<T as HashToScalar>::hash_to_scalar(
            rng.gen::<[u8; SECRET_KEY_BYTES]>(),
            KEYGEN_SALT,
        ))
    }

    /// Create a new random commitment challenge for signature proofs of knowledge
    /// as step 2
    pub fn new_proof_challenge() -> ProofCommitmentChallenge<T> {
        ProofCommitmentChallenge::new()
    }

    /// Compute a commitment challenge for signature proofs of knowledge from a hash
    /// as step 2
    pub fn proof_challenge_from_hash<B: AsRef<[u8]>>(data: B) -> ProofCommitmentChallenge<T> {
        ProofCommitmentChallenge::from_hash(data)
    }

    /// Compute a commitment challenge for signature proofs of knowledge from a CS-PRNG
    /// as step 2
    pub fn random_proof_challenge(
        mut rng: impl RngCore + CryptoRng,
    ) -> ProofCommitmentChallenge<T> {
        ProofCommitmentChallenge::random(&mut rng)
    }
}

/// A BLS signature implementation using G1 for signatures and G2 for public keys
pub type Bls12381G1 = BlsSignature<Bls12381G1Impl>;

/// A BLS signature implementation using G2 for signatures and G1 for public keys
pub type Bls12381G2 = BlsSignature<Bls12381G2Impl>;

/// A convenience wrapper for the two BLS signature implementations
/// that doesn't require specifying the generics and can be used in
/// trait object like situations.
#[derive(Copy, Clone, Debug, Default, Eq, PartialEq, Ord, PartialOrd, Hash)]
pub enum Bls12381 {
    /// A BLS signature implementation using G1 for signatures and G2 for public keys
    #[default]
    G1,
    /// A BLS signature implementation using G2 for signatures and G1 for public keys
    G2,
}

impl From<Bls12381> for u8 {
    fn from(bls: Bls12381) -> u8 {
        match bls {
            Bls12381::G1 => 1,
            Bls12381::G2 => 2,
        }
    }
}

impl From<&Bls12381> for u8 {
    fn from(bls: &Bls12381) -> u8 {
        u8::from(*bls)
    }
}

impl TryFrom<u8> for Bls12381 {
    type Error = BlsError;

    fn try_from(value: u8) -> Result<Self, Self::Error> {
        match value {
            1 => Ok(Bls12381::G1),
            2 => Ok(Bls12381::G2),
            _ => Err(BlsError::DeserializationError(
                "Invalid BLS12381 type".to_string(),
            )),
        }
    }
}

impl TryFrom<&u8> for Bls12381 {
    type Error = BlsError;

    fn try_from(value: &u8) -> Result<Self, Self::Error> {
        Self::try_from(*value)
    }
}

impl Display for Bls12381 {
    fn fmt(&self, f: &mut Formatter<'_>) -> fmt::Result {
        match self {
            Bls12381::G1 => write!(f, "BLS12381G1"),
            Bls12381::G2 => write!(f, "BLS12381G2"),
        }
    }
}

impl FromStr for Bls12381 {
    type Err = BlsError;

    fn from_str(s: &str) -> Result<Self, Self::Err> {
        match s {
            "BLS12381G1" => Ok(Bls12381::G1),
            "BLS12381G2" => Ok(Bls12381::G2),
            _ => Err(BlsError::DeserializationError(
                "Invalid BLS12381 type".to_string(),
            )),
        }
    }
}

impl Serialize for Bls12381 {
    fn serialize<S: Serializer>(&self, s: S) -> Result<S::Ok, S::Error> {
        if s.is_human_readable() {
            s.serialize_str(&self.to_string())
        } else {
            s.serialize_u8(u8::from(self))
        }
    }
}

impl<'de> Deserialize<'de> for Bls12381 {
    fn deserialize<D: Deserializer<'de>>(d: D) -> Result<Self, D::Error> {
        if d.is_human_readable() {
            let s = String::deserialize(d)?;
            Bls12381::from_str(&s).map_err(serde::de::Error::custom)
        } else {
            let u = u8::deserialize(d)?;
            Bls12381::try_from(u).map_err(serde::de::Error::custom)
        }
    }
}

/// The inner representation types
pub mod inner_types {
    #[cfg(not(feature = "blst"))]
    pub use bls12_381_plus::{
        elliptic_curve::hash2curve::{ExpandMsgXmd, ExpandMsgXof},
        ff::{Field, PrimeField},
        group::{Curve, Group, GroupEncoding},
        *,
    };
    #[cfg(feature = "blst")]
    pub use blstrs_plus::{
        elliptic_curve::hash2curve::{ExpandMsgXmd, ExpandMsgXof},
        ff::{Field, PrimeField},
        group::{Curve, Group, GroupEncoding},
        pairing_lib::{MillerLoopResult, MultiMillerLoop},
        *,
    };
}
