use crate::*;
use subtle::ConditionallySelectable;

/// A BLS signature wrapped in the appropriate scheme used to generate it
#[derive(PartialEq, Eq, serde::Serialize, serde::Deserialize)]
pub enum Signature<C: BlsSignatureImpl> {
    /// The basic signature scheme
    Basic(
        #[serde(serialize_with = "traits::signature::serialize::<C, _>")]
        #[serde(deserialize_with = "traits::signature::deserialize::<C, _>")]
        <C as Pairing>::Signature,
    ),
    /// The message augmentation signature scheme
    MessageAugmentation(
        #[serde(serialize_with = "traits::signature::serialize::<C, _>")]
        #[serde(deserialize_with = "traits::signature::deserialize::<C, _>")]
        <C as Pairing>::Signature,
    ),
    /// The proof of possession scheme
    ProofOfPossession(
        #[serde(serialize_with = "traits::signature::serialize::<C, _>")]
        #[serde(deserialize_with = "traits::signature::deserialize::<C, _>")]
        <C as Pairing>::Signature,
    ),
}

impl<C: BlsSignatureImpl> Default for Signature<C> {
    fn default() -> Self {
        Self::ProofOfPossession(<C as Pairing>::Signature::default())
    }
}

impl<C: BlsSignatureImpl> core::fmt::Display for Signature<C> {
    fn fmt(&self, f: &mut core::fmt::Formatter) -> core::fmt::Result {
        match self {
            Self::Basic(s) => write!(f, "Basic({})", s),
            Self::MessageAugmentation(s) => write!(f, "MessageAugmentation({})", s),
            Self::ProofOfPossession(s) => write!(f, "ProofOfPossession({})", s),
        }
    }
}

impl<C: BlsSignatureImpl> core::fmt::Debug for Signature<C> {
    fn fmt(&self, f: &mut core::fmt::Formatter) -> core::fmt::Result {
        match self {
            Self::Basic(s) => write!(f, "Basic({:?})", s),
            Self::MessageAugmentation(s) => write!(f, "MessageAugmentation({:?})", s),
            Self::ProofOfPossession(s) => write!(f, "ProofOfPossession({:?})", s),
        }
    }
}

impl<C: BlsSignatureImpl> Copy for Signature<C> {}

impl<C: BlsSignatureImpl> Clone for Signature<C> {
    fn clone(&self) -> Self {
        *self
    }
}

impl<C: BlsSignatureImpl> ConditionallySelectable for Signature<C> {
    fn conditional_select(a: &Self, b: &Self, choice: Choice) -> Self {
        match (a, b) {
            (Self::Basic(a), Self::Basic(b)) => {
                Self::Basic(<C as Pairing>::Signature::conditional_select(a, b, choice))
            }
            (Self::MessageAugmentation(a), Self::MessageAugmentation(b)) => {
                Self::MessageAugmentation(<C as Pairing>::Signature::conditional_select(
                    a, b, choice,
                ))
            }
            (Self::ProofOfPossession(a), Self::ProofOfPossession(b)) => {
                Self::ProofOfPossession(<C as Pairing>::Signature::conditional_select(a, b, choice))
            }
            _ => panic!("Signature::conditional_select: mismatched variants"),
        }
    }
}

impl_from_derivatives_generic!(Signature);

impl<C: BlsSignatureImpl> From<&Signature<C>> for Vec<u8> {
    fn from(value: &Signature<C>) -> Self {
        serde_bare::to_vec(value).unwrap()
    }
}

impl<C: BlsSignatureImpl> TryFrom<&[u8]> for Signature<C> {
    type Error = BlsError;

    fn try_from(value: &[u8]) -> Result<Self, Self::Error> {
        serde_bare::from_slice(value).map_err(|e| BlsError::InvalidInputs(e.to_string()))
    }
}

impl<C: BlsSignatureImpl> Signature<C> {
    /// Verify the signature using the public key
    pub fn verify<B: AsRef<[u8]>>(&self, pk: &PublicKey<C>, msg: B) -> BlsResult<()> {
        match self {
            Self::Basic(sig) => <C as BlsSignatureBasic>::verify(pk.0, *sig, msg),
            Self::MessageAugmentation(sig) => {
                <C as BlsSignatureMessageAugmentation>::verify(pk.0, *sig, msg)
            }
            Self::ProofOfPossession(sig) => <C as BlsSignaturePop>::verify(pk.0, *sig, msg),
        }
    }

    /// Determine if two signature were signed using the same scheme
    pub fn same_scheme(&self, &other: &Self) -> bool {
        matches!(
            (self, other),
            (Self::Basic(_), Self::Basic(_))
                | (Self::MessageAugmentation(_), Self::MessageAugmentation(_))
                | (Self::ProofOfPossession(_), Self::ProofOfPossession(_))
        )
    }

    /// Create a signature from shares
    pub fn from_shares(shares: &[SignatureShare<C>]) -> BlsResult<Self> {
        if !shares.iter().skip(1).all(|s| s.same_scheme(&shares[0])) {
            return Err(BlsError::InvalidSignatureScheme);
        }
        let points = shares
            .iter()
            .map(|s| *s.as_raw_value())
            .collect::<Vec<<C as Pairing>::SignatureShare>>();
        let sig = <C as BlsSignatureCore>::core_combine_signature_shares(&points)?;
        match shares[0] {
            SignatureShare::Basic(_) => Ok(Self::Basic(sig)),
            SignatureShare::MessageAugmentation(_) => Ok(Self::MessageAugmentation(sig)),
            SignatureShare::ProofOfPossession(_) => Ok(Self::ProofOfPossession(sig)),
        }
    }

    /// Extract the inner raw representation
    pub fn as_raw_value(&self) -> &<C as Pairing>::Signature {
        match self {
            Self::Basic(s) => s,
            Self::MessageAugmentation(s) => s,
            Self::ProofOfPossession(s) => s,
        }
    }
}

#[cfg(test)]
mod tests {
    use super::*;
    use rstest::*;

    #[rstest]
    #[case::g1(Bls12381G1Impl, 49)]
    #[case::g2(Bls12381G2Impl, 97)]
    fn try_from<C: BlsSignatureImpl + PartialEq + Eq + std::fmt::Debug>(
        #[case] _c: C,
        #[case] expected_len: usize,
    ) {
        const TEST_MSG: &[u8] = b"test_try_from";

        let sk = SecretKey::<C>::from_hash(TEST_MSG);
        let sig_b = sk.sign(SignatureSchemes::Basic, TEST_MSG).unwrap();
        let sig_ma = sk
            .sign(SignatureSchemes::MessageAugmentation, TEST_MSG)
            .unwrap();
        let sig_pop = sk
            .sign(SignatureSchemes::ProofOfPossession, TEST_MSG)
            .unwrap();

        let test: Vec<u8> = sig_b.into();
        assert_eq!(test.len(), expected_len);
        let res_sig_b2 = Signature::<C>::try_from(test);
        assert!(res_sig_b2.is_ok());
        assert_eq!(sig_b, res_sig_b2.unwrap());

        let test: Vec<u8> = sig_ma.into();
        assert_eq!(test.len(), expected_len);
        let res_sig_ma2 = Signature::<C>::try_from(test);
        assert!(res_sig_ma2.is_ok());
        assert_eq!(sig_ma, res_sig_ma2.unwrap());

        let test: Vec<u8> = sig_pop.into();
        assert_eq!(test.len(), expected_len);
        let res_sig_pop2 = Signature::<C>::try_from(test);
        assert!(res_sig_pop2.is_ok());
        assert_eq!(sig_pop, res_sig_pop2.unwrap());
    }
}
