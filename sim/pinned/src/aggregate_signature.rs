use crate::impls::inner_types::*;
use crate::*;

/// Represents a BLS signature for multiple signatures that signed different messages
#[derive(PartialEq, Eq, serde::Serialize, serde::Deserialize)]
pub enum AggregateSignature<C: BlsSignatureImpl> {
    /// The basic signature scheme
    Basic(
        #[serde(serialize_with = "traits::signature::serialize::<C, _>")]
        #[serde(deserialize_with = "traits::signature::deserialize::<C, _>")]
        <C as Pairing>::Signature,
    ),
    /// The message augmentation signature scheme
    MessageAugmentation(
        #[serde(serialize_with = "traits::signature::serialize::<C, _>")]
        #[serde(deserialize_with = "traits::signature::deserialize::<C, _>")]
        <C as Pairing>::Signature,
    ),
    /// The proof of possession scheme
    ProofOfPossession(
        #[serde(serialize_with = "traits::signature::serialize::<C, _>")]
        #[serde(deserialize_with = "traits::signature::deserialize::<C, _>")]
        <C as Pairing>::Signature,
    ),
}

impl<C: BlsSignatureImpl> Default for AggregateSignature<C> {
    fn default() -> Self {
        Self::ProofOfPossession(<C as Pairing>::Signature::default())
    }
}

impl<C: BlsSignatureImpl> core::fmt::Display for AggregateSignature<C> {
    fn fmt(&self, f: &mut core::fmt::Formatter) -> core::fmt::Result {
        match self {
            Self::Basic(s) => write!(f, "Basic({})", s),
            Self::MessageAugmentation(s) => write!(f, "MessageAugmentation({})", s),
            Self::ProofOfPossession(s) => write!(f, "ProofOfPossession({})", s),
        }
    }
}

impl<C: BlsSignatureImpl> core::fmt::Debug for AggregateSignature<C> {
    fn fmt(&self, f: &mut core::fmt::Formatter) -> core::fmt::Result {
        match self {
            Self::Basic(s) => write!(f, "Basic({:?})", s),
            Self::MessageAugmentation(s) => write!(f, "MessageAugmentation({:?})", s),
            Self::ProofOfPossession(s) => write!(f, "ProofOfPossession({:?})", s),
        }
    }
}

impl<C: BlsSignatureImpl> Copy for AggregateSignature<C> {}

impl<C: BlsSignatureImpl> Clone for AggregateSignature<C> {
    fn clone(&self) -> Self {
        *self
    }
}

impl<C: BlsSignatureImpl> subtle::ConditionallySelectable for AggregateSignature<C> {
    fn conditional_select(a: &Self, b: &Self, choice: Choice) -> Self {
        match (a, b) {
            (Self::Basic(a), Self::Basic(b)) => {
                Self::Basic(<C as Pairing>::Signature::conditional_select(a, b, choice))
            }
            (Self::MessageAugmentation(a), Self::MessageAugmentation(b)) => {
                Self::MessageAugmentation(<C as Pairing>::Signature::conditional_select(
                    a, b, choice,
                ))
            }
            (Self::ProofOfPossession(a), Self::ProofOfPossession(b)) => {
                Self::ProofOfPossession(<C as Pairing>::Signature::conditional_select(a, b, choice))
            }
            _ => panic!("Signature::conditional_select: mismatched variants"),
        }
    }
}

impl<C: BlsSignatureImpl> TryFrom<&[Signature<C>]> for AggregateSignature<C> {
    type Error = BlsError;

    fn try_from(sigs: &[Signature<C>]) -> Result<Self, Self::Error> {
        if sigs.len() < 2 {
            return Err(BlsError::InvalidSignature);
        }
        let mut g = <C as Pairing>::Signature::identity();
        for s in &sigs[1..] {
            if !s.same_scheme(&sigs[0]) {
                return Err(BlsError::InvalidSignatureScheme);
            }
            let ss = match s {
                Signature::Basic(sig) => sig,
                Signature::MessageAugmentation(sig) => sig,
                Signature::ProofOfPossession(sig) => sig,
            };
            g += ss;
        }
        match sigs[0] {
            Signature::Basic(s) => Ok(Self::Basic(g + s)),
            Signature::MessageAugmentation(s) => Ok(Self::MessageAugmentation(g + s)),
            Signature::ProofOfPossession(s) => Ok(Self::ProofOfPossession(g + s)),
        }
    }
}

impl_from_derivatives_generic!(AggregateSignature);

impl<C: BlsSignatureImpl> From<&AggregateSignature<C>> for Vec<u8> {
    fn from(value: &AggregateSignature<C>) -> Self {
        serde_bare::to_vec(value).unwrap()
    }
}

impl<C: BlsSignatureImpl> TryFrom<&[u8]> for AggregateSignature<C> {
    type Error = BlsError;

    fn try_from(value: &[u8]) -> Result<Self, Self::Error> {
        serde_bare::from_slice(value).map_err(|e| BlsError::InvalidInputs(e.to_string()))
    }
}

impl<C: BlsSignatureImpl> AggregateSignature<C> {
    /// Accumulate multiple signatures into a single signature
    /// Verify fails if any signed message is a duplicate
    pub fn from_signatures<B: AsRef<[Signature<C>]>>(signatures: B) -> BlsResult<Self> {
        Self::try_from(signatures.as_ref())
    }

    /// Verify the aggregated signature using the public keys
    pub fn verify<B: AsRef<[u8]>>(&self, data: &[(PublicKey<C>, B)]) -> BlsResult<()> {
        let ii = data.iter().map(|(pk, m)| (pk.0, m));
        match self {
            Self::Basic(sig) => <C as BlsSignatureBasic>::aggregate_verify(ii, *sig),
            Self::MessageAugmentation(sig) => {
                <C as BlsSignatureMessageAugmentation>::aggregate_verify(ii, *sig)
            }
            Self::ProofOfPossession(sig) => <C as BlsSignaturePop>::aggregate_verify(ii, *sig),
        }
    }
}
