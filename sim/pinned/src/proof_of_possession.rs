use crate::inner_types::*;
use crate::*;
use subtle::{Choice, ConditionallySelectable};

/// A proof of possession of the secret key
#[derive(PartialEq, Eq, serde::Serialize, serde::Deserialize)]
pub struct ProofOfPossession<C: BlsSignatureImpl>(
    /// The BLS proof of possession raw value
    #[serde(serialize_with = "traits::signature::serialize::<C, _>")]
    #[serde(deserialize_with = "traits::signature::deserialize::<C, _>")]
    pub <C as Pairing>::Signature,
);

impl<C: BlsSignatureImpl> Default for ProofOfPossession<C> {
    fn default() -> Self {
        Self(<C as Pairing>::Signature::default())
    }
}

impl<C: BlsSignatureImpl> core::fmt::Display for ProofOfPossession<C> {
    fn fmt(&self, f: &mut core::fmt::Formatter<'_>) -> core::fmt::Result {
        write!(f, "{}", self.0)
    }
}

impl<C: BlsSignatureImpl> core::fmt::Debug for ProofOfPossession<C> {
    fn fmt(&self, f: &mut core::fmt::Formatter<'_>) -> core::fmt::Result {
        write!(f, "ProofOfPossession{{ {:?} }}", self.0)
    }
}

impl<C: BlsSignatureImpl> Copy for ProofOfPossession<C> {}

impl<C: BlsSignatureImpl> Clone for ProofOfPossession<C> {
    fn clone(&self) -> Self {
        *self
    }
}

impl<C: BlsSignatureImpl> ConditionallySelectable for ProofOfPossession<C> {
    fn conditional_select(a: &Self, b: &Self, choice: Choice) -> Self {
        Self(<C as Pairing>::Signature::conditional_select(
            &a.0, &b.0, choice,
        ))
    }
}

impl_from_derivatives_generic!(ProofOfPossession);

impl<C: BlsSignatureImpl> From<&ProofOfPossession<C>> for Vec<u8> {
    fn from(value: &ProofOfPossession<C>) -> Self {
        value.0.to_bytes().as_ref().to_vec()
    }
}

impl<C: BlsSignatureImpl> TryFrom<&[u8]> for ProofOfPossession<C> {
    type Error = BlsError;

    fn try_from(value: &[u8]) -> Result<Self, Self::Error> {
        let mut repr = C::Signature::default().to_bytes();
        let len = repr.as_ref().len();

        if len != value.len() {
            return Err(BlsError::InvalidInputs(format!(
                "Invalid length, expected {}, got {}",
                len,
                value.len()
            )));
        }

        repr.as_mut().copy_from_slice(value);
        let key: Option<C::Signature> = C::Signature::from_bytes(&repr).into();
        key.map(Self)
            .ok_or_else(|| BlsError::InvalidInputs("Invalid byte sequence".to_string()))
    }
}

impl<C: BlsSignatureImpl> ProofOfPossession<C> {
    /// Verify this proof of possession
    pub fn verify(&self, pk: PublicKey<C>) -> BlsResult<()> {
        <C as BlsSignaturePop>::pop_verify(pk.0, self.0)
    }
}
